#!/usr/bin/env python3
"""tools/design_seedtable.py : copy the table of seeded/INDEX.md into DESIGN.md §10.7 and refresh the counts below it"""
import re
idx = open('/verif/seeded/INDEX.md').read()
tbl = idx[idx.index('| id | change |'):]
rows = [l for l in tbl.splitlines() if l.startswith('| C')]
n = len(rows)
caught = sum(1 for l in rows if 'NOT caught' not in l and ('bounded tier' in l or 'proof obligation' in l))
proof = sum(1 for l in rows if 'proof obligation' in l)
p = '/verif/DESIGN.md'
s = open(p).read()
a = s.index('| id | change | caught by |')
b = s.index('\n\n', a)
s = s[:a] + tbl.rstrip('\n') + s[b:]
s = re.sub(r'\d+ changes are kept; \d+ are caught by the check of their own property,\n\d+ of them by a proof obligation',
           f'{n} changes are kept (the `*-5` ones are the fifth round, §10.9); {caught} are caught by the check of their own property,\n{proof} of them by a proof obligation', s)
open(p, 'w').write(s)
print(n, caught, proof)
