#!/bin/sh
# tools/mutest.sh <prop> <patch.diff | -e 'sed expr' file> : run ./check on a scratch copy of /repo with a change applied
# usage: tools/mutest.sh C17 patch.diff        or   tools/mutest.sh C17 -s 's/a/b/' pytrs/x.py
prop=$1; shift
d=$(mktemp -d /tmp/mut.XXXXXX)
cp -r /repo/pytrs "$d/"
if [ "$1" = "-s" ]; then
  sed -i "$2" "$d/$3"
  diff -u "/repo/$3" "$d/$3" | head -20
else
  (cd "$d" && patch -p1 -s < "$1") || { echo "patch failed"; rm -rf "$d"; exit 9; }
fi
PYVC_REPO="$d" PYVC_OUT="$d/out" /verif/check "$prop" --tier "${TIER:-quick}" 2>&1 | grep -v "^PROVED\|^BOUNDED" | cut -c1-300
code=$?
ls "$d/out/replays" 2>/dev/null | head -5
if [ -n "$KEEP" ]; then echo "kept $d"; else rm -rf "$d"; fi
