#!/usr/bin/env python3
"""print source of a file or qualname with docstrings and comment-only lines removed (reading aid)"""
import ast, sys, io, tokenize
path = sys.argv[1]; want = sys.argv[2:] 
src = open(path).read()
tree = ast.parse(src)
lines = src.splitlines()
drop = set()
for n in ast.walk(tree):
    if isinstance(n, (ast.FunctionDef, ast.ClassDef, ast.Module, ast.AsyncFunctionDef)):
        b = n.body
        if b and isinstance(b[0], ast.Expr) and isinstance(getattr(b[0], 'value', None), ast.Constant) and isinstance(b[0].value.value, str):
            for i in range(b[0].lineno, b[0].end_lineno + 1): drop.add(i)
def emit(lo, hi):
    for i in range(lo, hi + 1):
        if i in drop: continue
        l = lines[i-1]
        if not l.strip() or l.strip().startswith('#'): continue
        print(f"{i:5d} {l}")
if not want:
    emit(1, len(lines))
else:
    def find(node, parts):
        for c in ast.iter_child_nodes(node):
            if isinstance(c, (ast.FunctionDef, ast.ClassDef)) and c.name == parts[0]:
                return c if len(parts) == 1 else find(c, parts[1:])
            if not isinstance(c, (ast.FunctionDef, ast.ClassDef)) :
                r = find(c, parts) if isinstance(c,(ast.If,ast.Try)) else None
                if r: return r
    for w in want:
        n = find(tree, w.split('.'))
        if n is None: print('?? not found', w); continue
        emit(n.lineno, n.end_lineno)
