#!/usr/bin/env python3
"""tools/status_table.py : markdown table of the last run of every check, from props/registry.json and evidence/*.json"""
import json
import os

r = json.load(open('/verif/props/registry.json'))
print('| id | level | units under contract | obligations discharged / generated | by back end | solver s | bounded evaluations | wall s |')
print('|---|---|---|---|---|---|---|---|')
for pid in sorted(r['claimed']):
    p = f'/verif/evidence/{pid}.json'
    if not os.path.exists(p):
        continue
    d = json.load(open(p))
    c = d['coverage']
    be = ', '.join(f'{k} {v}' for k, v in sorted(c.get('backends', {}).items()))
    print(f"| {pid} | {d['level']} | {len(c.get('functions_under_contract', []))} | {c['discharged']} / {c['obligations']} | {be} | "
          f"{c.get('solver_secs', '')} | {c.get('evaluations', '')} | {d.get('wall_s', '')} |")
for pid, why in sorted(r['not_applicable'].items()):
    print(f'| {pid} | not applicable | — | — | — | — | — | — |')
