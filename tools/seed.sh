#!/bin/sh
# tools/seed.sh <Cxx> <n> [check-props...] : confirm a sub-agent's seeded change (tests pass, demo fails with / passes without),
# run ./check for the given properties (default: the property itself) on a scratch copy, and file it under /verif/seeded/<Cxx>-<n>/
prop=$1; n=$2; shift 2
checks=${*:-$prop}
wt=/tmp/wt/$prop; out=/tmp/wt/$prop-out$SUFFIX
dst=/verif/seeded/$prop-$n
[ -f $out/patch$n.diff ] || { echo "no patch"; exit 9; }
git -C $wt checkout -q -- . ; git -C $wt clean -fdq
git -C $wt checkout -q --detach $(git -C /repo rev-parse HEAD)
git -C $wt apply $out/patch$n.diff || { echo "patch does not apply"; exit 9; }
tests=$(cd $wt && /venv/bin/python -m pytest -q -p no:cacheprovider 2>&1 | tail -1)
(cd $wt && PYTHONPATH=$wt /venv/bin/python $out/demo$n.py >/dev/null 2>&1); demo_with=$?
git -C $wt checkout -q -- .
(cd $wt && PYTHONPATH=$wt /venv/bin/python $out/demo$n.py >/dev/null 2>&1); demo_without=$?
echo "tests: $tests | demo with patch exit=$demo_with | without exit=$demo_without"
mkdir -p $dst
cp $out/patch$n.diff $dst/patch.diff; cp $out/demo$n.py $dst/demo.py
results=""
for c in $checks; do
  r=$(/verif/tools/mutest.sh $c $out/patch$n.diff 2>&1 | grep "^VIOLATION\|^SUMMARY\|^UNDECIDED\|^CHECKER" | head -6)
  echo "--- ./check $c on patched copy:"; echo "$r"
  results="$results
[$c] $r"
done
python3 - "$prop" "$n" "$tests" "$demo_with" "$demo_without" "$results" "$checks" <<'PY'
import json, sys, re
prop, n, tests, dw, dwo, results, checks = sys.argv[1:8]
notes = open(f"/tmp/wt/{prop}-out{__import__('os').environ.get('SUFFIX', '')}/notes.md").read()
caught = {}
for block in results.split('\n['):
    m = re.match(r'\[?(C\d+)\]', '[' + block if not block.startswith('[') else block)
    if not m: continue
    caught[m.group(1)] = {'violation_lines': re.findall(r'VIOLATION[^\n]*', block)[:4], 'summary': (re.findall(r'SUMMARY[^\n]*', block) or [''])[0]}
meta = {'breaks_property': prop, 'source': 'independent sub-agent given only the property text and a scratch worktree',
        'needs_to_manifest': notes, 'confirmed': {'test_suite_with_patch': tests, 'demo_exit_with_patch': int(dw), 'demo_exit_without_patch': int(dwo)},
        'ran': [f'git apply patch.diff; /venv/bin/python -m pytest -q (in scratch worktree)', 'demo.py with / without the patch', f'tools/mutest.sh <prop> patch.diff for {checks}'],
        'detected_by': caught}
json.dump(meta, open(f'/verif/seeded/{prop}-{n}/meta.json', 'w'), indent=1)
print('detected:', {k: bool(v['violation_lines']) for k, v in caught.items()})
PY
