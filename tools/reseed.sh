#!/bin/sh
# tools/reseed.sh [ids...] : re-confirm every kept seeded change against the current /repo HEAD and the current checks.
# For each /verif/seeded/<Cxx-n>/: apply patch.diff in a scratch worktree (outside /repo and /verif), run the pinned tests, run
# demo.py with and without the patch, run ./check <Cxx> on a patched scratch copy (tools/mutest.sh), update meta.json.
# The worktree is removed at the end.  Nothing is ever applied to /repo itself.
wt=/tmp/reseed-wt
git -C /repo worktree remove --force $wt 2>/dev/null
git -C /repo worktree add -q --detach $wt HEAD || exit 9
ids=${*:-$(ls /verif/seeded | grep '^C[0-9]')}
for id in $ids; do
  dir=/verif/seeded/$id
  [ -f $dir/patch.diff ] || continue
  prop=${id%-*}
  git -C $wt checkout -q -- . ; git -C $wt clean -fdq
  if ! git -C $wt apply $dir/patch.diff 2>/dev/null; then echo "$id: patch does not apply to HEAD"; continue; fi
  tests=$(cd $wt && /venv/bin/python -m pytest -q -p no:cacheprovider 2>&1 | tail -1)
  (cd $wt && PYTHONPATH=$wt /venv/bin/python $dir/demo.py >/dev/null 2>&1); dw=$?
  git -C $wt checkout -q -- .
  (cd $wt && PYTHONPATH=$wt /venv/bin/python $dir/demo.py >/dev/null 2>&1); dwo=$?
  s=$(date +%s)
  full=$(/verif/tools/mutest.sh $prop $dir/patch.diff 2>&1 | grep "^VIOLATION\|^SUMMARY\|^UNDECIDED\|^CHECKER")
  # two lines of each kind are enough to classify (a failing unit can print dozens)
  r=$(echo "$full" | grep "^VIOLATION" | grep "bounded" | head -2; echo "$full" | grep "^VIOLATION" | grep -v "bounded" | head -3; echo "$full" | grep -v "^VIOLATION" | head -4)
  secs=$(( $(date +%s) - s ))
  python3 - "$id" "$prop" "$tests" "$dw" "$dwo" "$r" "$secs" <<'PY'
import json, sys, re, subprocess
id_, prop, tests, dw, dwo, r, secs = sys.argv[1:8]
p = f'/verif/seeded/{id_}/meta.json'
meta = json.load(open(p))
vl = re.findall(r'VIOLATION[^\n]*', r)
kinds = sorted({'bounded tier' if 'bounded' in l else 'proof obligation' for l in vl})
meta['confirmed'] = {'test_suite_with_patch': tests, 'demo_exit_with_patch': int(dw), 'demo_exit_without_patch': int(dwo)}
meta['detected_by'] = {prop: {'caught': bool(vl), 'by': kinds, 'violation_lines': vl[:4], 'summary': (re.findall(r'SUMMARY[^\n]*', r) or [''])[0],
                              'check_seconds': int(secs)}}
meta['checked_against'] = {'repo_head': subprocess.run(['git', '-C', '/repo', 'rev-parse', '--short', 'HEAD'], capture_output=True, text=True).stdout.strip(),
                           'verif_head': subprocess.run(['git', '-C', '/verif', 'rev-parse', '--short', 'HEAD'], capture_output=True, text=True).stdout.strip()}
json.dump(meta, open(p, 'w'), indent=1)
print(f"{id_}: tests[{tests}] demo with/without={dw}/{dwo} caught={bool(vl)} by={kinds} {secs}s")
PY
done
git -C /repo worktree remove --force $wt
