#!/usr/bin/env python3
"""tools/seedindex.py : write /verif/seeded/INDEX.md (one row per kept seeded change) from the meta.json files"""
import glob
import json
import os
import re

rows = []
for p in sorted(glob.glob('/verif/seeded/C*/meta.json')):
    d = json.load(open(p))
    sid = p.split('/')[-2]
    n = sid.split('-')[1]
    notes = d.get('needs_to_manifest', '')
    m = re.search(r'##\s*(?:patch%s\.diff|Patch %s|patch %s)[^\n]*' % (n, n, n), notes)
    title = re.sub(r'^##\s*(patch\d\.diff|Patch \d|patch \d)\s*[-:–—]*\s*', '', m.group(0)).strip() if m else ''
    title = d.get('title') or title
    if not title:
        diff = open(os.path.join(os.path.dirname(p), 'patch.diff')).read()
        files = re.findall(r'^\+\+\+ b/(\S+)', diff, re.M)
        title = 'change in ' + ', '.join(files)
    det = d.get('detected_by', {})
    cells = []
    for prop, v in det.items():
        if 'caught' in v:
            cells.append(f"{prop}: " + (' + '.join(v['by']) if v['caught'] else '**missed**'))
        else:
            vl = v.get('violation_lines', [])
            kinds = sorted({'bounded tier' if 'bounded' in l else 'proof obligation' for l in vl})
            cells.append(f"{prop}: " + (' + '.join(kinds) if vl else '**missed**'))
    c = d.get('confirmed', {})
    ok = ('passed' in c.get('test_suite_with_patch', '') and 'failed' not in c.get('test_suite_with_patch', '')
          and c.get('demo_exit_with_patch') not in (0, None) and c.get('demo_exit_without_patch') == 0)
    rows.append((sid, title[:150], '; '.join(cells), 'yes' if ok else 'NO'))
out = ["# Seeded property-breaking changes kept with the checks",
       "",
       "Each directory holds `patch.diff` (against the /repo HEAD named in meta.json), `demo.py` (exit 0 on the unchanged tree, non-zero with",
       "the patch) and `meta.json` (what was run, what each check reported).  All were written by independent sub-agents that saw only the",
       "property text and a scratch worktree; each was re-confirmed here: the 244 pinned tests pass with the patch, the demo fails with it and",
       "passes without it.  `tools/reseed.sh` repeats that and re-runs `./check` on a patched scratch copy (never on /repo).",
       "The C11-1 of the first request was replaced by a new one: the repair of the layout hand-over (24c034a) rewrote the code it changed; C13-1 was re-based by hand onto f7816a7.",
       "",
       "| id | change | caught by | confirmed (tests pass, demo fails/passes) |",
       "|---|---|---|---|"]
for r in rows:
    out.append('| ' + ' | '.join(r) + ' |')
open('/verif/seeded/INDEX.md', 'w').write('\n'.join(out) + '\n')
print('\n'.join(out[-len(rows):]))
