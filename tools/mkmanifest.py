#!/usr/bin/env python3
"""Regenerate MANIFEST.json from props/registry.json (single source of truth)."""
import json, os, sys
here = os.path.dirname(os.path.dirname(os.path.abspath(__file__)))
reg = json.load(open(os.path.join(here, 'props', 'registry.json')))
checks = []
for pid, r in sorted(reg['claimed'].items()):
    checks.append({
        "property_id": pid,
        "quick_cmd": f"./check {pid} --tier quick",
        "thorough_cmd": f"./check {pid} --tier thorough",
        "evidence_file": f"evidence/{pid}.json",
        "replay_cmd_template": "./check replay {path}",
        "engine": "pyvc",
        "level_claimed": {"category": r['level'], "text": r['text'], "design_ref": r.get('design_ref', f"DESIGN.md §3 {pid}")},
        "level_note": r['note'],
        "technique": r['technique'],
    })
m = {
    "version": 1,
    "setup_cmd": "./check setup",
    "hooks": {
        "guard": "PYTRS_VERIF",
        "enable": "no source hooks: contracts are sidecar files under /verif/props and /verif/pyvc reads /repo's working tree on every run",
        "baseline_off_cmd": "cd /repo && /venv/bin/python -m pytest -ra -q -p no:cacheprovider --timeout=900 --continue-on-collection-errors",
        "source_commits": [],
        "add_only": True,
    },
    "engines": [{
        "name": "pyvc", "path": "pyvc/",
        "serves_properties": sorted(reg['claimed'].keys()),
        "kind_free_text": "contract-based deductive verifier built here: AST symbolic executor over the real /repo source + sidecar contracts, VCs discharged by z3 (cvc5 for unknowns); regex patterns translated from re._parser to SMT RegLan; bounded contract enumeration as labelled stand-in",
    }],
    "checks": checks,
    "notes": reg.get('notes', ''),
    "not_applicable": [{"property_id": k, "reason": v} for k, v in sorted(reg['not_applicable'].items())],
}
json.dump(m, open(os.path.join(here, 'MANIFEST.json'), 'w'), indent=1)
try:
    import jsonschema
    jsonschema.validate(m, json.load(open('/root/.vp/MANIFEST.schema.json')))
    print("MANIFEST.json valid,", len(checks), "checks")
except ImportError:
    print("MANIFEST.json written (jsonschema not available)")
