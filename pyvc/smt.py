"""Back ends: z3 (Python API) and cvc5 (Python API, fed with the SMT-LIB text z3 prints)."""
import os
import tempfile
import time

import z3

try:
    import cvc5
    HAVE_CVC5 = True
except ImportError:      # pragma: no cover
    HAVE_CVC5 = False


def to_smt2(constraints):
    s = z3.Solver()
    for c in constraints:
        s.add(c)
    txt = s.to_smt2()
    if 'seq.nth_u' in txt or 'seq.nth_i' in txt:
        txt = txt.replace('seq.nth_u', 'seq.nth').replace('seq.nth_i', 'seq.nth')
    return '(set-logic ALL)\n' + txt


_worker = None


def _get_worker():
    global _worker
    import subprocess
    import sys
    if _worker is None or _worker.poll() is not None:
        _worker = subprocess.Popen([sys.executable, '-m', 'pyvc.cvc5worker'], stdin=subprocess.PIPE,
                                   stdout=subprocess.PIPE, stderr=subprocess.DEVNULL,
                                   cwd=os.path.dirname(os.path.dirname(os.path.abspath(__file__))))
    return _worker


def _kill_worker():
    global _worker
    if _worker is not None:
        try:
            _worker.kill()
            _worker.wait(timeout=2)
        except Exception:
            pass
        _worker = None


def cvc5_check_text(txt, tlimit_ms):
    """returns 'sat' | 'unsat' | 'unknown' | 'error:<msg>'; hard deadline enforced by killing the worker process"""
    if not HAVE_CVC5:
        return 'unknown'
    import select
    data = txt.encode('utf-8')
    for attempt in (0, 1):
        w = _get_worker()
        try:
            w.stdin.write(f"{len(data)} {int(tlimit_ms)}\n".encode() + data)
            w.stdin.flush()
        except (BrokenPipeError, OSError):
            _kill_worker()
            continue
        deadline = tlimit_ms / 1000.0 + 1.0
        r, _, _ = select.select([w.stdout], [], [], deadline)
        if not r:
            _kill_worker()
            return 'unknown'
        line = w.stdout.readline().decode('utf-8', 'replace').strip()
        if not line:
            _kill_worker()
            continue
        return line
    return 'unknown'


def cvc5_check(constraints, tlimit_ms):
    return cvc5_check_text(to_smt2(constraints), tlimit_ms)


_strcache = {}


def has_strings(t, _depth=0):
    """does the term mention a String / Seq / RegLan sorted sub-term? (cached DAG walk)"""
    tid = t.get_id()
    r = _strcache.get(tid)
    if r is not None:
        return r
    srt = t.sort()
    k = srt.kind()
    if k in (z3.Z3_SEQ_SORT, z3.Z3_RE_SORT):
        _strcache[tid] = True
        return True
    res = False
    if z3.is_app(t):
        for i in range(t.num_args()):
            if has_strings(t.arg(i), _depth + 1):
                res = True
                break
    elif z3.is_quantifier(t):
        res = has_strings(t.body(), _depth + 1)
    _strcache[tid] = res
    return res
