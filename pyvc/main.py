"""CLI driver: python -m pyvc.main <Cxx> [--tier quick|thorough] [--unit substr] [-j N]"""
import argparse
import importlib
import json
import multiprocessing as mp
import os
import sys
import time

HERE = os.path.dirname(os.path.dirname(os.path.abspath(__file__)))
sys.path.insert(0, HERE)
REPO = os.environ.get('PYVC_REPO', '/repo')
if REPO not in sys.path:
    sys.path.insert(0, REPO)


def _run_one(args):
    pid, idx = args
    mod = importlib.import_module(f'props.{pid.lower()}')
    from pyvc import engine
    unit = mod.units()[idx]
    r = engine.run_unit(unit)
    if os.environ.get('PYVC_UNIT_PROGRESS'):
        d = sum(1 for o in r['obligations'] if o['status'] == 'discharged')
        print(f"  done {r['unit']}: {r['status']} paths={r['paths']} {d}/{len(r['obligations'])} {r['secs']}s", file=sys.stderr, flush=True)
    return r


def run_units(pid, select=None, jobs=16):
    mod = importlib.import_module(f'props.{pid.lower()}')
    units = mod.units()
    idxs = [i for i, u in enumerate(units) if not select or select in u.name]
    if jobs == 1 or len(idxs) == 1:
        return [_run_one((pid, i)) for i in idxs]
    with mp.get_context('fork').Pool(min(jobs, len(idxs))) as pool:
        return pool.map(_run_one, [(pid, i) for i in idxs], chunksize=1)


def main():
    ap = argparse.ArgumentParser()
    ap.add_argument('prop')
    ap.add_argument('--tier', default=os.environ.get('VERIF_TIER', 'quick'))
    ap.add_argument('--unit', default=None)
    ap.add_argument('-j', type=int, default=16)
    ap.add_argument('-v', action='store_true')
    a = ap.parse_args()
    t0 = time.time()
    results = run_units(a.prop, a.unit, a.j)
    nob = ndis = 0
    for r in results:
        obs = r['obligations']
        nob += len(obs)
        d = sum(1 for o in obs if o['status'] == 'discharged')
        ndis += d
        bad = [o for o in obs if o['status'] != 'discharged']
        print(f"{r['unit']}: {r['status']} paths={r['paths']} obligations={len(obs)} discharged={d} secs={r['secs']}"
              + (f" ERROR {r['error']}" if r['error'] else ''))
        for o in bad[:6] if not a.v else bad:
            print("   ", o['status'], o['name'], o['backend'], o['extra'] or '', json.dumps(o['model'], default=str)[:600])
    print(f"TOTAL obligations={nob} discharged={ndis} wall={time.time() - t0:.1f}s")


if __name__ == '__main__':
    main()
