"""AST interpreter (mixed concrete / symbolic) over the real /repo source."""
import ast
import builtins as _bi
import inspect
import operator
import sys
import textwrap
import types
import re as _re

import z3

from .values import (SV, SOpt, SymList, Obj, Closure, BoundMethod, Uninterp, has_sym, lift, wrap,
                     fresh_name, mk_int, mk_bool, mk_str, concrete_of)
from .ctx import Ctx, Unsupported, PathEnd, PathInfeasible, Raised


class _Return(Exception):
    def __init__(self, v):
        self.v = v


class _Break(Exception):
    pass


class _Continue(Exception):
    pass


class Frame:
    __slots__ = ('locals', 'parent', 'globs', 'mangle', 'qualname', 'globals_decl', 'nonlocal_decl', 'fn', 'entry', 'yields')

    def __init__(self, parent, globs, mangle, qualname, fn=None):
        self.locals = {}
        self.parent = parent
        self.globs = globs
        self.mangle = mangle
        self.qualname = qualname
        self.globals_decl = set()
        self.nonlocal_decl = set()
        self.fn = fn
        self.entry = {}
        self.yields = None


class SymMethod:
    """Bound method of a symbolic receiver (SV/SOpt/SymList) or a modelled native receiver."""
    __slots__ = ('recv', 'name')

    def __init__(self, recv, name):
        self.recv = recv
        self.name = name


# ------------------------------------------------------------------------------------------
# source index: real function object -> AST (parsed from the real file on every run)
# ------------------------------------------------------------------------------------------
_file_cache = {}


def _parse_file(path):
    if path not in _file_cache:
        with open(path, encoding='utf-8') as f:
            src = f.read()
        tree = ast.parse(src, filename=path)
        idx = {}

        def walk(node, prefix, cls):
            for c in ast.iter_child_nodes(node):
                if isinstance(c, (ast.FunctionDef, ast.AsyncFunctionDef)):
                    q = prefix + c.name
                    idx.setdefault(q, []).append((c, cls))
                    walk(c, q + '.<locals>.', cls)
                elif isinstance(c, ast.ClassDef):
                    q = prefix + c.name
                    idx.setdefault(q, []).append((c, c.name))
                    walk(c, q + '.', c.name)
                else:
                    walk(c, prefix, cls)
        walk(tree, '', None)
        _file_cache[path] = (tree, idx, src)
    return _file_cache[path]


def func_ast(pyfunc):
    """Return (FunctionDef node, mangle class name) for a real python function."""
    code = pyfunc.__code__
    path = code.co_filename
    tree, idx, _ = _parse_file(path)
    q = pyfunc.__qualname__
    cands = idx.get(q, [])
    for node, cls in cands:
        if node.lineno == code.co_firstlineno or any(
                d.lineno == code.co_firstlineno for d in getattr(node, 'decorator_list', [])):
            return node, cls
    if len(cands) >= 1:
        # property setters/getters share a qualname: pick by first line
        best = min(cands, key=lambda nc: abs(nc[0].lineno - code.co_firstlineno))
        return best
    if q == '<lambda>' or q.endswith('<lambda>'):
        for n in ast.walk(tree):
            if isinstance(n, ast.Lambda) and n.lineno == code.co_firstlineno:
                return n, None
    raise Unsupported(f"no source for {q} in {path}")


def nested_func_ast(path, qual):
    """Look up nested function by dotted path, e.g. '_TRSTractList._sort_custom.n_to_s'."""
    tree, idx, _ = _parse_file(path)
    parts = qual.split('.')
    # build key with <locals>
    def search(node, parts, cls):
        for c in ast.iter_child_nodes(node):
            if isinstance(c, (ast.FunctionDef, ast.ClassDef)) and c.name == parts[0]:
                ncls = c.name if isinstance(c, ast.ClassDef) else cls
                if len(parts) == 1:
                    return c, ncls
                r = search(c, parts[1:], ncls)
                if r:
                    return r
            elif not isinstance(c, (ast.FunctionDef, ast.ClassDef, ast.Lambda)):
                r = search(c, parts, cls)
                if r:
                    return r
        return None
    r = search(tree, parts, None)
    if r is None:
        raise Unsupported(f"no nested function {qual} in {path}")
    return r


def clear_source_cache():
    _file_cache.clear()


# ------------------------------------------------------------------------------------------

class Interp:
    def __init__(self, ctx, contracts=None, verify_target=None, spec_mode=False, max_steps=400000):
        self.ctx = ctx
        self.contracts = contracts or {}      # id(pyfunc) or qualname -> contract object
        self.verify_target = verify_target    # qualname being verified (not replaced by its contract)
        self.overlay = {}                     # (id(owner), name) -> value : stores to classes/modules
        self.overlay_owner = {}
        self.spec_depth = 1 if spec_mode else 0
        self.steps = 0
        self.max_steps = max_steps
        self.loop_contracts = {}              # (qualname, ordinal) -> Loop
        self.call_depth = 0
        self.trace_calls = []
        self.hooks = {}                       # name -> callable for special intercepts
        from . import models
        self.models = models

    # ---------------- helpers -------------------------------------------------
    def unsupported(self, node, msg):
        ln = getattr(node, 'lineno', '?')
        raise Unsupported(f"{msg} (line {ln})")

    def truth(self, v):
        """Truthiness of a value as python bool or z3 Bool term."""
        if isinstance(v, SV):
            if v.is_bool():
                return v.t
            if v.is_int():
                return v.t != 0
            return z3.Length(v.t) > 0
        if isinstance(v, SOpt):
            inner = self.truth(v.v)
            if isinstance(inner, bool):
                return z3.And(z3.Not(v.n), z3.BoolVal(inner))
            return z3.And(z3.Not(v.n), inner)
        if isinstance(v, SymList):
            return z3.Length(v.t) > 0
        if isinstance(v, (Obj,)):
            # __bool__/__len__ defined?
            for name in ('__bool__', '__len__'):
                m = self.class_lookup(v.cls, name)
                if m is not None:
                    r = self.call(m, [v], {})
                    return self.truth(r)
            return True
        if isinstance(v, (Closure, BoundMethod, Uninterp, SymMethod)):
            return True
        if isinstance(v, self.models.ADict):
            return bool(v.entries)
        if isinstance(v, self.models.SymSet):
            return bool(v.items)
        return bool(v)

    def decide(self, v):
        if isinstance(v, self.models.QuantView):
            return v.truth_fork(self)
        t = self.truth(v)
        if isinstance(t, bool):
            return t
        return self.ctx.branch(t)

    def class_lookup(self, cls, name):
        for k in cls.__mro__:
            ov = self.overlay.get((id(k), name), _MISSING)
            if ov is not _MISSING:
                return ov
            if name in k.__dict__:
                if k is object:
                    return None
                return k.__dict__[name]
        return None

    def mangle(self, name, frame):
        if frame.mangle and name.startswith('__') and not name.endswith('__'):
            return f"_{frame.mangle.lstrip('_')}{name}"
        return name

    # ---------------- names ------------------------------------------------------
    def load_name(self, name, frame, node=None):
        f = frame
        while f is not None:
            if name in f.locals:
                return f.locals[name]
            f = f.parent
        key = (id(frame.globs), name)
        if key in self.overlay:
            return self.overlay[key]
        if name in frame.globs:
            return frame.globs[name]
        if hasattr(_bi, name):
            return getattr(_bi, name)
        raise Raised(NameError(f"name {name!r} is not defined"))

    def store_name(self, name, val, frame):
        if name in frame.globals_decl:
            self.overlay[(id(frame.globs), name)] = val
            self.ctx.effects.append(('global', frame.globs.get('__name__', '?'), name))
            return
        if name in frame.nonlocal_decl:
            f = frame.parent
            while f is not None:
                if name in f.locals:
                    f.locals[name] = val
                    return
                f = f.parent
        frame.locals[name] = val

    # ---------------- attribute access ---------------------------------------------
    def getattr(self, obj, name, node=None, default=_bi.NotImplemented):
        if isinstance(obj, Obj):
            cattr = self.class_lookup(obj.cls, name)
            if isinstance(cattr, property):
                return self.call(cattr.fget, [obj], {})
            if name in obj.fields:
                return obj.fields[name]
            if cattr is not None or self._class_has(obj.cls, name):
                if isinstance(cattr, (types.FunctionType, Closure)):
                    return BoundMethod(cattr, obj)
                if isinstance(cattr, staticmethod):
                    return cattr.__func__
                if isinstance(cattr, classmethod):
                    return BoundMethod(cattr.__func__, obj.cls)
                return cattr
            if name == '__class__':
                return obj.cls
            if name == '__dict__':
                return obj.fields
            if default is not _bi.NotImplemented:
                return default
            ga = self.class_lookup(obj.cls, '__getattr__')
            if ga is not None:
                return self.call(ga, [obj, name], {})
            raise Raised(AttributeError(f"{obj.cls.__name__!r} object has no attribute {name!r}"))
        if isinstance(obj, (self.models.GhostList, self.models.ADict, self.models.SymSet)):
            return SymMethod(obj, name)
        from .rx import SymMatch
        if isinstance(obj, SymMatch):
            if name in ('string', 're'):
                return getattr(obj, name)
            return SymMethod(obj, name)
        if isinstance(obj, (SV, SOpt, SymList)):
            if isinstance(obj, SOpt):
                # attribute of possibly-None: None has no such attribute
                if self.ctx.branch(obj.n):
                    raise Raised(AttributeError(f"'NoneType' object has no attribute {name!r}"))
                return self.getattr(obj.v, name, node, default)
            return SymMethod(obj, name)
        if isinstance(obj, type):
            # class attribute: overlay first
            for k in obj.__mro__:
                ov = self.overlay.get((id(k), name), _MISSING)
                if ov is not _MISSING:
                    return ov
                if name in k.__dict__:
                    v = k.__dict__[name]
                    if isinstance(v, staticmethod):
                        return v.__func__
                    if isinstance(v, classmethod):
                        return BoundMethod(v.__func__, obj)
                    if isinstance(v, (types.FunctionType, property)):
                        return v
                    break
            try:
                return getattr(obj, name)
            except AttributeError as e:
                if default is not _bi.NotImplemented:
                    return default
                raise Raised(e)
        if isinstance(obj, types.ModuleType):
            ov = self.overlay.get((id(obj.__dict__), name), _MISSING)
            if ov is not _MISSING:
                return ov
        if isinstance(obj, (list, dict, tuple, set, str)) and has_sym(obj) or \
                (isinstance(obj, (list, dict, set)) and name in self.models.NATIVE_METHOD_MODELS.get(type(obj), ())):
            if hasattr(obj, name):
                return SymMethod(obj, name)
        try:
            return getattr(obj, name)
        except AttributeError as e:
            if default is not _bi.NotImplemented:
                return default
            raise Raised(e)

    def _class_has(self, cls, name):
        return any(name in k.__dict__ for k in cls.__mro__ if k is not object)

    def setattr(self, obj, name, val, node=None):
        if isinstance(obj, Obj):
            cattr = self.class_lookup(obj.cls, name)
            if isinstance(cattr, property):
                if cattr.fset is None:
                    raise Raised(AttributeError(f"can't set attribute {name!r}"))
                self.call(cattr.fset, [obj, val], {})
                return
            obj.fields[name] = val
            self.ctx.effects.append(('field', obj, name))
            return
        if isinstance(obj, type):
            self.overlay[(id(obj), name)] = val
            self.overlay_owner[(id(obj), name)] = obj
            self.ctx.effects.append(('class', obj.__qualname__, name))
            return
        if isinstance(obj, types.ModuleType):
            self.overlay[(id(obj.__dict__), name)] = val
            self.ctx.effects.append(('global', obj.__name__, name))
            return
        if (getattr(type(obj), '__module__', '') or '').startswith('props'):
            object.__setattr__(obj, name, val)       # ghost object of the contract layer
            return
        raise Unsupported(f"setattr on {type(obj).__name__}.{name}")

    # ---------------- calls --------------------------------------------------------------
    def to_closure(self, pyfunc):
        node, cls = func_ast(pyfunc)
        # resolve closure cells into a synthetic parent frame
        parent = None
        if pyfunc.__closure__:
            parent = Frame(None, pyfunc.__globals__, cls, pyfunc.__qualname__ + '.<cells>')
            for nm, cell in zip(pyfunc.__code__.co_freevars, pyfunc.__closure__):
                try:
                    parent.locals[nm] = cell.cell_contents
                except ValueError:
                    pass
        return Closure(node, parent, pyfunc.__globals__, cls, pyfunc.__qualname__,
                       pyfunc.__defaults__ or (), pyfunc.__kwdefaults__, pyfunc)

    def is_interpretable(self, fn):
        if not isinstance(fn, types.FunctionType):
            return False
        mod = getattr(fn, '__module__', '') or ''
        return mod.startswith('pytrs') or mod.startswith('props') or mod.startswith('specs') or \
            getattr(fn, '__pyvc_interpret__', False)

    def call(self, fn, args, kwargs, node=None):
        self.steps += 1
        if self.steps > self.max_steps:
            raise Unsupported("step budget exceeded (unbounded concrete loop?)")
        if isinstance(fn, BoundMethod):
            return self.call(fn.fn, [fn.self_] + list(args), kwargs, node)
        if isinstance(fn, self.models.LazyPick):
            return self.call(fn.resolve(self), args, kwargs, node)
        if isinstance(fn, SymMethod):
            return self.models.call_method(self, fn.recv, fn.name, args, kwargs, node)
        if isinstance(fn, Closure):
            if self.contracts and not self.spec_depth:
                q = fn.qualname.replace('.<locals>', '')
                con = self.contracts.get(q)
                if con is not None and q != self.verify_target:
                    return con.apply(self, fn, args, kwargs)
            return self.call_closure(fn, args, kwargs)
        # registered model for this exact callable (builtins, re functions, spec helpers)
        m = self.models.lookup_model(fn)
        if m is not None:
            return m(self, args, kwargs, node)
        if isinstance(fn, types.MethodType):
            if isinstance(fn.__self__, _re.Pattern) or (isinstance(fn.__self__, types.ModuleType)):
                pass
            else:
                return self.call(fn.__func__, [fn.__self__] + list(args), kwargs, node)
        if isinstance(fn, types.FunctionType) and getattr(fn, '__pyvc_native__', False):
            return self.native(fn, args, kwargs)       # helper of the contract layer: runs natively on (symbolic) values
        if isinstance(fn, types.FunctionType):
            con = self.contracts.get(fn.__qualname__)
            if con is not None and fn.__qualname__ != self.verify_target and not self.spec_depth:
                return con.apply(self, fn, args, kwargs)
            if self.is_interpretable(fn):
                return self.call_closure(self.to_closure(fn), args, kwargs)
            if not has_sym(args) and not has_sym(kwargs):
                return self.native(fn, args, kwargs)
            raise Unsupported(f"call of non-repo function {fn.__module__}.{fn.__qualname__} with symbolic args")
        if isinstance(fn, type):
            return self.instantiate(fn, args, kwargs, node)
        if isinstance(fn, (staticmethod,)):
            return self.call(fn.__func__, args, kwargs, node)
        # other callables: builtin functions / methods of native objects
        recv = getattr(fn, '__self__', None)
        if recv is not None and not isinstance(recv, types.ModuleType) and not isinstance(recv, type):
            name = getattr(fn, '__name__', None)
            if name and (has_sym(args) or has_sym(kwargs) or has_sym(recv)) or isinstance(recv, _re.Pattern):
                return self.models.call_method(self, recv, name, args, kwargs, node)
        if not has_sym(args) and not has_sym(kwargs):
            return self.native(fn, args, kwargs)
        raise Unsupported(f"call of {fn!r} with symbolic arguments")

    def native(self, fn, args, kwargs):
        try:
            return fn(*args, **kwargs)
        except (Unsupported, PathEnd, PathInfeasible, Raised):
            raise
        except Exception as e:   # the interpreted program raised
            raise Raised(e)

    def instantiate(self, cls, args, kwargs, node=None):
        mod = getattr(cls, '__module__', '') or ''
        con = self.contracts.get(cls.__qualname__ + '.__init__')
        if (mod.startswith('pytrs') or mod.startswith('props')) and not issubclass(cls, BaseException):
            if con is not None and (cls.__qualname__ + '.__init__') != self.verify_target and not self.spec_depth:
                obj = Obj(cls)
                if getattr(con, 'init_fields', None) is not None:
                    clo = self.to_closure(cls.__init__)
                    bound = self.bind_args(clo, [obj] + list(args), kwargs)
                    con.init_fields(self, obj, bound)
                    self.ctx.assumed.append('callee-contract:' + con.name)
                else:
                    con.apply(self, cls.__init__, [obj] + list(args), kwargs)
                return obj
            new = self.class_lookup(cls, '__new__')
            obj = Obj(cls)
            init = self.class_lookup(cls, '__init__')
            if init is not None:
                self.call(init, [obj] + list(args), kwargs)
            return obj
        m = self.models.lookup_model(cls)
        if m is not None:
            return m(self, args, kwargs, node)
        if issubclass(cls, BaseException):
            try:
                return cls(*args, **kwargs)
            except Exception as e:
                raise Raised(e)
        if not has_sym(args) and not has_sym(kwargs):
            return self.native(cls, args, kwargs)
        raise Unsupported(f"instantiate {cls.__name__} with symbolic args")

    def bind_args(self, clo, args, kwargs):
        a = clo.node.args
        params = [p.arg for p in a.posonlyargs + a.args]
        bound = {}
        args = list(args)
        if len(args) > len(params) and a.vararg is None:
            raise Raised(TypeError(f"{clo.qualname}() takes {len(params)} positional arguments but {len(args)} were given"))
        for p, v in zip(params, args):
            bound[p] = v
        if a.vararg is not None:
            bound[a.vararg.arg] = tuple(args[len(params):])
        kwargs = dict(kwargs)
        defaults = list(clo.defaults)
        ndef = len(defaults)
        for i, p in enumerate(params):
            if p in bound:
                if p in kwargs:
                    raise Raised(TypeError(f"{clo.qualname}() got multiple values for argument {p!r}"))
                continue
            if p in kwargs:
                bound[p] = kwargs.pop(p)
                continue
            di = i - (len(params) - ndef)
            if di >= 0:
                bound[p] = defaults[di]
            else:
                raise Raised(TypeError(f"{clo.qualname}() missing required argument {p!r}"))
        for p in a.kwonlyargs:
            if p.arg in kwargs:
                bound[p.arg] = kwargs.pop(p.arg)
            elif p.arg in clo.kwdefaults:
                bound[p.arg] = clo.kwdefaults[p.arg]
            else:
                raise Raised(TypeError(f"{clo.qualname}() missing keyword-only argument {p.arg!r}"))
        if a.kwarg is not None:
            bound[a.kwarg.arg] = kwargs
        elif kwargs:
            raise Raised(TypeError(f"{clo.qualname}() got an unexpected keyword argument {next(iter(kwargs))!r}"))
        return bound

    def call_closure(self, clo, args, kwargs):
        frame = Frame(clo.env, clo.globs, clo.mangle, clo.qualname, clo)
        frame.locals.update(self.bind_args(clo, args, kwargs))
        self.call_depth += 1
        if self.call_depth > 60:
            raise Unsupported("call depth exceeded")
        try:
            if isinstance(clo.node, ast.Lambda):
                return self.eval(clo.node.body, frame)
            if self.is_generator(clo.node):
                # generator function: evaluated eagerly (the library's generators are pure producers)
                frame.yields = []
                try:
                    self.exec_block(clo.node.body, frame)
                except _Return:
                    pass
                return list(frame.yields)
            try:
                self.exec_block(clo.node.body, frame)
            except _Return as r:
                return r.v
            return None
        finally:
            self.call_depth -= 1

    # ---------------- statements ---------------------------------------------------------
    def exec_block(self, stmts, frame):
        for s in stmts:
            self.exec(s, frame)

    def exec(self, node, frame):
        self.steps += 1
        if self.steps > self.max_steps:
            raise Unsupported("step budget exceeded")
        m = getattr(self, 'x_' + type(node).__name__, None)
        if m is None:
            self.unsupported(node, f"statement {type(node).__name__}")
        return m(node, frame)

    def x_Expr(self, node, frame):
        self.eval(node.value, frame)

    def x_Pass(self, node, frame):
        pass

    def x_Import(self, node, frame):
        for al in node.names:
            mod = __import__(al.name)
            if al.asname:
                for part in al.name.split('.')[1:]:
                    mod = getattr(mod, part)
                frame.locals[al.asname] = mod
            else:
                frame.locals[al.name.split('.')[0]] = mod

    def x_ImportFrom(self, node, frame):
        import importlib
        pkg = frame.globs.get('__package__')
        modname = ('.' * node.level) + (node.module or '')
        mod = importlib.import_module(modname, pkg) if node.level else importlib.import_module(node.module)
        for al in node.names:
            frame.locals[al.asname or al.name] = getattr(mod, al.name)

    def x_Global(self, node, frame):
        frame.globals_decl.update(node.names)

    def x_Nonlocal(self, node, frame):
        frame.nonlocal_decl.update(node.names)

    def x_Return(self, node, frame):
        raise _Return(self.eval(node.value, frame) if node.value is not None else None)

    def x_Break(self, node, frame):
        raise _Break()

    def x_Continue(self, node, frame):
        raise _Continue()

    def x_Assert(self, node, frame):
        if not self.decide(self.eval(node.test, frame)):
            raise Raised(AssertionError())

    def x_Delete(self, node, frame):
        for t in node.targets:
            if isinstance(t, ast.Name):
                frame.locals.pop(t.id, None)
            elif isinstance(t, ast.Subscript):
                obj = self.eval(t.value, frame)
                idx = self.eval_index(t.slice, frame)
                if has_sym(idx):
                    self.unsupported(node, "del with symbolic index")
                try:
                    del obj[idx]
                except Exception as e:
                    raise Raised(e)
            else:
                self.unsupported(node, "del target")

    def x_FunctionDef(self, node, frame):
        defaults = tuple(self.eval(d, frame) for d in node.args.defaults)
        kwd = {a.arg: self.eval(d, frame) for a, d in zip(node.args.kwonlyargs, node.args.kw_defaults) if d is not None}
        clo = Closure(node, frame, frame.globs, frame.mangle, frame.qualname + '.<locals>.' + node.name, defaults, kwd)
        if node.decorator_list:
            self.unsupported(node, "decorated nested function")
        frame.locals[node.name] = clo

    def x_Assign(self, node, frame):
        v = self.eval(node.value, frame)
        for t in node.targets:
            self.assign(t, v, frame)

    def x_AnnAssign(self, node, frame):
        if node.value is not None:
            self.assign(node.target, self.eval(node.value, frame), frame)

    def x_AugAssign(self, node, frame):
        t = node.target
        if isinstance(t, ast.Name):
            cur = self.load_name(t.id, frame, node)
            new = self.binop(node.op, cur, self.eval(node.value, frame), node, inplace=True)
            self.store_name(t.id, new, frame)
        elif isinstance(t, ast.Attribute):
            obj = self.eval(t.value, frame)
            nm = self.mangle(t.attr, frame)
            cur = self.getattr(obj, nm, node)
            new = self.binop(node.op, cur, self.eval(node.value, frame), node, inplace=True)
            self.setattr(obj, nm, new, node)
        elif isinstance(t, ast.Subscript):
            obj = self.eval(t.value, frame)
            idx = self.eval_index(t.slice, frame)
            cur = self.subscript(obj, idx, node)
            new = self.binop(node.op, cur, self.eval(node.value, frame), node, inplace=True)
            self.store_subscript(obj, idx, new, node)
        else:
            self.unsupported(node, "augassign target")

    def assign(self, target, v, frame):
        if isinstance(target, ast.Name):
            self.store_name(target.id, v, frame)
        elif isinstance(target, (ast.Tuple, ast.List)):
            items = self.unpack_iter(v, len(target.elts), target)
            for t, x in zip(target.elts, items):
                self.assign(t, x, frame)
        elif isinstance(target, ast.Attribute):
            obj = self.eval(target.value, frame)
            self.setattr(obj, self.mangle(target.attr, frame), v, target)
        elif isinstance(target, ast.Subscript):
            obj = self.eval(target.value, frame)
            idx = self.eval_index(target.slice, frame)
            self.store_subscript(obj, idx, v, target)
        else:
            self.unsupported(target, "assignment target")

    def unpack_iter(self, v, n, node):
        if isinstance(v, (tuple, list)):
            if len(v) != n:
                raise Raised(ValueError(f"not enough/too many values to unpack (expected {n}, got {len(v)})"))
            return list(v)
        if isinstance(v, SV) and v.is_str():
            # unpacking a string into characters: requires len == n
            ok = z3.Length(v.t) == n
            self.safe('unpack', ok, ValueError, node)
            return [wrap(z3.SubString(v.t, i, 1)) for i in range(n)]
        if isinstance(v, str):
            if len(v) != n:
                raise Raised(ValueError("unpack string"))
            return list(v)
        if isinstance(v, SymList):
            ok = z3.Length(v.t) == n
            self.safe('unpack', ok, ValueError, node)
            return [self.models.seq_get(self, v, i) for i in range(n)]
        try:
            items = list(self.iterate(v, node))
        except TypeError as e:
            raise Raised(e)
        if len(items) != n:
            raise Raised(ValueError("unpack length"))
        return items

    def safe(self, what, ok, exc_cls, node, msg=''):
        """A partial operation: if `ok` can be false the program raises exc_cls (fork)."""
        if isinstance(ok, bool):
            if not ok:
                raise Raised(exc_cls(msg or what))
            return
        if not self.ctx.branch(ok):
            raise Raised(exc_cls(msg or what))

    def x_If(self, node, frame):
        if self.decide(self.eval(node.test, frame)):
            self.exec_block(node.body, frame)
        else:
            self.exec_block(node.orelse, frame)

    def loop_ordinal(self, node, frame):
        fnode = frame.fn.node if frame.fn is not None else None
        if fnode is None:
            return None
        k = 0
        for n in ast.walk(fnode):
            pass
        # ordinal in source order among While/For nodes directly belonging to this function
        loops = []

        def collect(n):
            for c in ast.iter_child_nodes(n):
                if isinstance(c, (ast.FunctionDef, ast.Lambda, ast.ClassDef, ast.AsyncFunctionDef)):
                    continue
                if isinstance(c, (ast.While, ast.For)):
                    loops.append(c)
                collect(c)
        collect(fnode)
        loops.sort(key=lambda n: (n.lineno, n.col_offset))
        for i, l in enumerate(loops):
            if l is node:
                return i
        return None

    def x_While(self, node, frame):
        lc = self.find_loop_contract(node, frame)
        if lc is not None:
            return self.models.run_contract_loop(self, node, frame, lc)
        while True:
            c = self.eval(node.test, frame)
            t = self.truth(c)
            if not isinstance(t, bool):
                t2 = z3.simplify(t)
                over = False
                if not (z3.is_true(t2) or z3.is_false(t2)):
                    over = self.note_symbolic_loop(node, frame)
                t = self.ctx.branch(t2)
                if t and not (z3.is_true(t2) or z3.is_false(t2)):
                    # a path that stays in a loop that is being unfolded.  Feasibility queries run on a small budget and 'unknown'
                    # counts as feasible, so on a loaded machine an infeasible continuation would be unfolded again and again until
                    # the budget is used up and the unit ends undecided: ask both solvers properly at every unfolding
                    from .ctx import PathInfeasible
                    fresh = len(self.ctx.taken) > len(self.ctx.decisions)       # not a replayed decision of an earlier path
                    if (fresh or over) and not self.ctx.feasible_strong(10000 if over else 4000):
                        raise PathInfeasible()
                    if over:
                        raise Unsupported(f"loop with symbolic guard needs an invariant ({frame.qualname} line {node.lineno})")
            if not t:
                break
            try:
                self.exec_block(node.body, frame)
            except _Break:
                return
            except _Continue:
                continue
        self.exec_block(node.orelse, frame)

    def note_symbolic_loop(self, node, frame):
        # a loop with symbolic guard and no contract: allowed only a bounded number of unfoldings
        key = ('unroll', id(node))
        cnt = self.hooks.get(key, 0) + 1
        self.hooks[key] = cnt
        return cnt > self.hooks.get('max_unroll', 0)

    def find_loop_contract(self, node, frame):
        if not self.loop_contracts:
            return None
        ordn = self.loop_ordinal(node, frame)
        q = frame.qualname.replace('.<locals>', '')
        return self.loop_contracts.get((q, ordn))

    def iterate(self, it, node=None):
        if isinstance(it, self.models.ADict):
            return iter([k for k, _ in it.entries])
        if isinstance(it, self.models.SymSet):
            return iter(list(it.items))
        if isinstance(it, (list, tuple, range, dict, set, frozenset, str)):
            return iter(list(it)) if not isinstance(it, dict) else iter(list(it.keys()))
        if isinstance(it, (types.GeneratorType, enumerate, zip, map, filter, reversed)) or hasattr(it, '__next__'):
            return it
        if isinstance(it, Obj):
            m = self.class_lookup(it.cls, '__iter__')
            if m is not None:
                return self.iterate(self.call(m, [it], {}), node)
            gi = self.class_lookup(it.cls, '__getitem__')
            if gi is None:
                raise Raised(TypeError(f"{it.cls.__name__!r} object is not iterable"))
            raise Unsupported(f"iteration over Obj {it.cls.__name__}")
        if isinstance(it, SV) and not (it.is_str() or it.is_seq()):
            raise Raised(TypeError("'int' object is not iterable"))
        if isinstance(it, SOpt):
            raise Unsupported("iteration over optional value")
        if isinstance(it, (SymList, SV)):
            raise Unsupported("iteration over symbolic sequence needs a loop contract")
        if isinstance(it, (self.models.GhostList, self.models.ObjSeq)):
            raise Unsupported("iteration over ghost list outside a comprehension needs a loop contract")
        if hasattr(it, '__iter__'):
            return iter(it)
        raise Raised(TypeError(f"{type(it).__name__} object is not iterable"))

    def x_For(self, node, frame):
        lc = self.find_loop_contract(node, frame)
        if lc is not None:
            return self.models.run_contract_for(self, node, frame, lc)
        itv = self.eval(node.iter, frame)
        it = self.iterate(itv, node)
        for x in it:
            self.assign(node.target, x, frame)
            try:
                self.exec_block(node.body, frame)
            except _Break:
                return
            except _Continue:
                continue
        self.exec_block(node.orelse, frame)

    def x_Raise(self, node, frame):
        if node.exc is None:
            cur = frame.locals.get('!exc')
            if cur is None:
                raise Raised(RuntimeError("No active exception to reraise"))
            raise cur
        e = self.eval(node.exc, frame)
        if isinstance(e, type) and issubclass(e, BaseException):
            e = self.instantiate(e, [], {})
        if isinstance(e, Obj):
            raise Raised(e, e.cls)
        raise Raised(e)

    def exc_matches(self, raised, handler_type, frame):
        if handler_type is None:
            return True
        t = self.eval(handler_type, frame)
        ts = t if isinstance(t, tuple) else (t,)
        return any(isinstance(x, type) and issubclass(raised.cls, x) for x in ts)

    def x_Try(self, node, frame):
        try:
            try:
                self.exec_block(node.body, frame)
            except Raised as r:
                for h in node.handlers:
                    if self.exc_matches(r, h.type, frame):
                        if h.name:
                            frame.locals[h.name] = r.exc
                        saved = frame.locals.get('!exc')
                        frame.locals['!exc'] = r
                        try:
                            self.exec_block(h.body, frame)
                        finally:
                            frame.locals['!exc'] = saved
                        break
                else:
                    raise
            else:
                self.exec_block(node.orelse, frame)
        finally:
            if node.finalbody:
                # note: PathEnd / Unsupported propagate through finally without executing it
                et = sys.exc_info()[0]
                if et is None or not issubclass(et, (PathEnd, PathInfeasible, Unsupported)):
                    self.exec_block(node.finalbody, frame)

    def x_With(self, node, frame):
        if len(node.items) != 1:
            self.unsupported(node, "multi-item with")
        item = node.items[0]
        cm = self.eval(item.context_expr, frame)
        if isinstance(cm, Uninterp):
            if item.optional_vars is not None:
                self.assign(item.optional_vars, cm, frame)
            self.exec_block(node.body, frame)
            return
        self.unsupported(node, "with statement on non-modelled context manager")

    def x_ClassDef(self, node, frame):
        self.unsupported(node, "nested class definition")

    # ---------------- expressions --------------------------------------------------------
    def eval(self, node, frame):
        m = getattr(self, 'e_' + type(node).__name__, None)
        if m is None:
            self.unsupported(node, f"expression {type(node).__name__}")
        return m(node, frame)

    def e_Constant(self, node, frame):
        return node.value

    def e_Name(self, node, frame):
        return self.load_name(node.id, frame, node)

    def e_Attribute(self, node, frame):
        obj = self.eval(node.value, frame)
        return self.getattr(obj, self.mangle(node.attr, frame), node)

    def e_Tuple(self, node, frame):
        return tuple(self.eval_seq(node.elts, frame))

    def e_List(self, node, frame):
        return list(self.eval_seq(node.elts, frame))

    def e_Set(self, node, frame):
        items = self.eval_seq(node.elts, frame)
        if has_sym(items):
            self.unsupported(node, "set literal with symbolic elements")
        return set(items)

    def eval_seq(self, elts, frame):
        out = []
        for e in elts:
            if isinstance(e, ast.Starred):
                out.extend(self.iterate(self.eval(e.value, frame), e))
            else:
                out.append(self.eval(e, frame))
        return out

    def e_Dict(self, node, frame):
        d = self.models.ADict()
        for k, v in zip(node.keys, node.values):
            if k is None:
                src = self.eval(v, frame)
                items = src.entries if isinstance(src, self.models.ADict) else list(src.items())
                for kk, vv in items:
                    self.models.adict_set(self, d, kk, vv)
            else:
                kk = self.eval(k, frame)
                self.models.adict_set(self, d, kk, self.eval(v, frame))
        return d

    def e_Lambda(self, node, frame):
        defaults = tuple(self.eval(d, frame) for d in node.args.defaults)
        return Closure(node, frame, frame.globs, frame.mangle, frame.qualname + '.<lambda>', defaults)

    def guarded_eval(self, node, frame):
        try:
            return self.eval(node, frame)
        except Raised:
            if not self.ctx.feasible(z3.BoolVal(True)):
                raise PathInfeasible()
            raise

    def e_IfExp(self, node, frame):
        c = self.truth(self.eval(node.test, frame))
        if isinstance(c, bool):
            return self.eval(node.body if c else node.orelse, frame)
        c = z3.simplify(c)
        if z3.is_true(c):
            return self.eval(node.body, frame)
        if z3.is_false(c):
            return self.eval(node.orelse, frame)
        if self.spec_depth:
            mk = self.ctx.push_guard(c)
            a = b = _MISSING
            try:
                a = self.guarded_eval(node.body, frame)
            except PathInfeasible:
                pass
            finally:
                self.ctx.pop_guard(mk)
            mk = self.ctx.push_guard(z3.Not(c))
            try:
                b = self.guarded_eval(node.orelse, frame)
            except PathInfeasible:
                pass
            finally:
                self.ctx.pop_guard(mk)
            if a is _MISSING and b is _MISSING:
                raise PathInfeasible()
            if a is _MISSING:
                return b
            if b is _MISSING:
                return a
            r = self.models.merge_values(c, a, b)
            if r is not NotImplemented:
                return r
            self.unsupported(node, "spec-mode conditional with non-scalar arms")
        if self.ctx.branch(c):
            return self.eval(node.body, frame)
        return self.eval(node.orelse, frame)

    def pure_expr(self, node):
        """syntactically side-effect free: names, attributes (incl. properties), constants, comparisons, boolean ops"""
        if isinstance(node, (ast.Name, ast.Constant)):
            return True
        if isinstance(node, ast.Attribute):
            return self.pure_expr(node.value)
        if isinstance(node, ast.BoolOp):
            return all(self.pure_expr(v) for v in node.values)
        if isinstance(node, ast.UnaryOp) and isinstance(node.op, ast.Not):
            return self.pure_expr(node.operand)
        if isinstance(node, ast.Compare):
            return self.pure_expr(node.left) and all(self.pure_expr(c) for c in node.comparators) and \
                all(isinstance(o, (ast.Is, ast.IsNot, ast.Eq, ast.NotEq)) for o in node.ops)
        return False

    def e_BoolOp(self, node, frame):
        is_and = isinstance(node.op, ast.And)
        if not self.spec_depth and all(self.pure_expr(v) for v in node.values):
            # pure boolean combination: no short-circuit forks needed when every operand is boolean-valued
            self.spec_depth += 1
            try:
                vals = []
                ok = True
                for e in node.values:
                    try:
                        v = self.eval(e, frame)
                    except (Raised, Unsupported):
                        ok = False
                        break
                    if not (isinstance(v, bool) or (isinstance(v, SV) and v.is_bool())):
                        ok = False
                        break
                    vals.append(v)
            finally:
                self.spec_depth -= 1
            if ok:
                if all(isinstance(v, bool) for v in vals):
                    return all(vals) if is_and else any(vals)
                ts = [z3.BoolVal(v) if isinstance(v, bool) else v.t for v in vals]
                return wrap(z3.And(*ts) if is_and else z3.Or(*ts))
        if self.spec_depth:
            # pure spec expression: no forks; later operands are evaluated under the guard of the earlier ones
            terms = []
            marks = []
            pairs = []       # (operand value, its truth) in evaluation order, for the value semantics of `a or b`
            try:
                for e in node.values:
                    try:
                        v = self.guarded_eval(e, frame) if marks else self.eval(e, frame)
                    except PathInfeasible:
                        if not marks:
                            raise
                        break        # evaluated under an infeasible guard: cannot matter on this path
                    t = self.truth(v)
                    pairs.append((v, t))
                    if isinstance(t, bool):
                        if is_and and not t:
                            terms.append(z3.BoolVal(False))
                            break
                        if (not is_and) and t:
                            terms.append(z3.BoolVal(True))
                            break
                        continue
                    terms.append(t)
                    mk = self.ctx.push_guard(t if is_and else z3.Not(t))
                    if mk is None:
                        break       # the remaining operands cannot matter on this path
                    marks.append(mk)
            finally:
                for mk in reversed(marks):
                    self.ctx.pop_guard(mk)
            if any(not (isinstance(v, bool) or (isinstance(v, SV) and v.is_bool())) for v, _ in pairs):
                # `a or b` / `a and b` over non-boolean operands yields one of the operands, not a truth value
                return self.boolop_value(pairs, is_and, node)
            if not terms:
                return True if is_and else False
            return wrap(z3.And(*terms) if is_and else z3.Or(*terms))
        v = None
        for e in node.values:
            v = self.eval(e, frame)
            t = self.decide(v)
            if is_and and not t:
                return v
            if (not is_and) and t:
                return v
        return v

    def boolop_value(self, pairs, is_and, node):
        """value of a short-circuit chain whose operands are scalars (possibly None): the first operand that decides it, else the last"""
        def scalar(v):
            if v is None:
                return None, z3.BoolVal(True)
            if isinstance(v, SOpt):
                return v.v.t, v.n
            if isinstance(v, SV):
                return v.t, z3.BoolVal(False)
            if isinstance(v, (bool, int, str)):
                return lift(v), z3.BoolVal(False)
            raise Unsupported(f"short-circuit value of {type(v).__name__} operands in a specification context (line {getattr(node, 'lineno', '?')})")
        v_last, _ = pairs[-1]
        val, isnone = scalar(v_last)
        for v, t in reversed(pairs[:-1]):
            pv, pn = scalar(v)
            tt = z3.BoolVal(t) if isinstance(t, bool) else t
            take = z3.Not(tt) if is_and else tt          # this operand decides the chain
            if pv is None and val is None:
                continue
            if pv is None:
                pv = val
            if val is None:
                val = pv
            if pv.sort() != val.sort():
                raise Unsupported(f"short-circuit chain over operands of different sorts (line {getattr(node, 'lineno', '?')})")
            val = z3.If(take, pv, val)
            isnone = z3.If(take, pn, isnone)
        isnone = z3.simplify(isnone)
        if val is None:
            return None
        if z3.is_false(isnone):
            return wrap(val)
        return SOpt(isnone, SV(z3.simplify(val)))

    def e_UnaryOp(self, node, frame):
        v = self.eval(node.operand, frame)
        if isinstance(node.op, ast.Not):
            t = self.truth(v)
            if isinstance(t, bool):
                return not t
            return wrap(z3.Not(t))
        if isinstance(node.op, ast.USub):
            if isinstance(v, SV):
                return wrap(-v.t)
            if isinstance(v, SOpt):
                self.safe('neg None', z3.Not(v.n), TypeError, node)
                return wrap(-v.v.t)
            return self.native(operator.neg, [v], {})
        if isinstance(node.op, ast.UAdd):
            return v
        self.unsupported(node, "unary op")

    def e_BinOp(self, node, frame):
        a = self.eval(node.left, frame)
        b = self.eval(node.right, frame)
        return self.binop(node.op, a, b, node)

    def binop(self, op, a, b, node, inplace=False):
        return self.models.binop(self, op, a, b, node, inplace)

    def e_Compare(self, node, frame):
        left = self.eval(node.left, frame)
        result = None
        terms = []
        for op, rnode in zip(node.ops, node.comparators):
            right = self.eval(rnode, frame)
            r = self.models.compare(self, op, left, right, node)
            if isinstance(r, bool):
                if not r:
                    return False
            else:
                terms.append(r)
            left = right
        if not terms:
            return True
        if len(terms) == 1:
            return wrap(terms[0])
        return wrap(z3.And(*terms))

    def e_Call(self, node, frame):
        fn = self.eval(node.func, frame)
        if fn is self.models_spec_implies():
            return self.eval_implies(node, frame)
        args = []
        for a in node.args:
            if isinstance(a, ast.Starred):
                args.extend(self.iterate(self.eval(a.value, frame), a))
            else:
                args.append(self.eval(a, frame))
        kwargs = {}
        for k in node.keywords:
            if k.arg is None:
                kwargs.update(self.eval(k.value, frame))
            else:
                kwargs[k.arg] = self.eval(k.value, frame)
        if fn is _bi.super:
            return self.make_super(frame)
        if fn is _bi.locals:
            return frame.locals
        return self.call(fn, args, kwargs, node)

    def models_spec_implies(self):
        from . import spec
        return spec.implies

    def eval_implies(self, node, frame):
        a = self.truth(self.eval(node.args[0], frame))
        if isinstance(a, bool):
            if not a:
                return True
            b = self.truth(self.eval(node.args[1], frame))
            return b if isinstance(b, bool) else wrap(b)
        mk = self.ctx.push_guard(a)
        try:
            b = self.truth(self.guarded_eval(node.args[1], frame))
        except PathInfeasible:
            b = True
        finally:
            self.ctx.pop_guard(mk)
        b = z3.BoolVal(b) if isinstance(b, bool) else b
        return wrap(z3.Implies(a, b))

    def make_super(self, frame):
        self.unsupported(None, "super()")

    def eval_index(self, sl, frame):
        if isinstance(sl, ast.Slice):
            lo = self.eval(sl.lower, frame) if sl.lower is not None else None
            hi = self.eval(sl.upper, frame) if sl.upper is not None else None
            st = self.eval(sl.step, frame) if sl.step is not None else None
            return slice(lo, hi, st)
        if isinstance(sl, ast.Tuple):
            return tuple(self.eval_index(e, frame) for e in sl.elts)
        return self.eval(sl, frame)

    def e_Subscript(self, node, frame):
        obj = self.eval(node.value, frame)
        idx = self.eval_index(node.slice, frame)
        return self.subscript(obj, idx, node)

    def subscript(self, obj, idx, node):
        return self.models.subscript(self, obj, idx, node)

    def store_subscript(self, obj, idx, val, node):
        return self.models.store_subscript(self, obj, idx, val, node)

    def e_JoinedStr(self, node, frame):
        parts = []
        for v in node.values:
            if isinstance(v, ast.Constant):
                parts.append(v.value)
            else:
                x = self.eval(v.value, frame)
                conv = v.conversion
                spec = None
                if v.format_spec is not None:
                    spec = self.eval(v.format_spec, frame)
                parts.append(self.models.format_value(self, x, conv, spec, node))
        return self.models.concat_strs(self, parts)

    def e_FormattedValue(self, node, frame):
        x = self.eval(node.value, frame)
        return self.models.format_value(self, x, node.conversion, None, node)

    def comp_generators(self, gens, frame, body):
        """Run nested comprehension generators (concrete iterables only; symbolic handled in models)."""
        def rec(i, fr):
            if i == len(gens):
                body(fr)
                return
            g = gens[i]
            itv = self.eval(g.iter, fr)
            for x in self.iterate(itv, g):
                self.assign(g.target, x, fr)
                ok = True
                for c in g.ifs:
                    if not self.decide(self.eval(c, fr)):
                        ok = False
                        break
                if ok:
                    rec(i + 1, fr)
        rec(0, frame)

    def comp_frame(self, frame):
        f = Frame(frame, frame.globs, frame.mangle, frame.qualname, frame.fn)
        return f

    def e_ListComp(self, node, frame):
        r = self.models.symbolic_comprehension(self, node, frame)
        if r is not NotImplemented:
            return r
        out = []
        f = self.comp_frame(frame)
        self.comp_generators(node.generators, f, lambda fr: out.append(self.eval(node.elt, fr)))
        return out

    def e_GeneratorExp(self, node, frame):
        r = self.models.symbolic_comprehension(self, node, frame)
        if r is not NotImplemented:
            return r
        out = []
        f = self.comp_frame(frame)
        self.comp_generators(node.generators, f, lambda fr: out.append(self.eval(node.elt, fr)))
        return out

    def e_SetComp(self, node, frame):
        out = []
        f = self.comp_frame(frame)
        self.comp_generators(node.generators, f, lambda fr: out.append(self.eval(node.elt, fr)))
        return self.models.lookup_model(set)(self, [out], {}, node)

    def e_DictComp(self, node, frame):
        out = self.models.ADict()
        f = self.comp_frame(frame)

        def body(fr):
            k = self.eval(node.key, fr)
            self.models.adict_set(self, out, k, self.eval(node.value, fr))
        self.comp_generators(node.generators, f, body)
        return out

    def e_Starred(self, node, frame):
        self.unsupported(node, "starred expression")

    _gen_cache = {}

    def is_generator(self, fnode):
        k = id(fnode)
        if k not in self._gen_cache:
            found = False
            stack = list(fnode.body)
            while stack:
                n = stack.pop()
                if isinstance(n, (ast.Yield, ast.YieldFrom)):
                    found = True
                    break
                if isinstance(n, (ast.FunctionDef, ast.Lambda, ast.ClassDef)):
                    continue
                stack.extend(ast.iter_child_nodes(n))
            self._gen_cache[k] = found
        return self._gen_cache[k]

    def e_Yield(self, node, frame):
        if frame.yields is None:
            self.unsupported(node, "yield outside generator function")
        frame.yields.append(self.eval(node.value, frame) if node.value is not None else None)
        return None

    def e_NamedExpr(self, node, frame):
        v = self.eval(node.value, frame)
        self.assign(node.target, v, frame)
        return v


_MISSING = object()
