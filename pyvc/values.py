"""Value model of the pyvc symbolic executor.

Concrete Python values are used as they are (ints, strs, tuples, lists, dicts, real
classes / functions / compiled patterns from the imported /repo package).  Symbolic
leaves are:

  SV(t)        a z3 term of sort Int, Bool, String or Seq(...)        (immutable)
  SOpt(n, v)   a value that may be None: n = z3 Bool "is None", v = payload (SV) when not None
  SymList(t)   a *mutable* Python-list object whose content is a z3 Seq term (unbounded length)
  Obj(cls)     an instance of a real class under interpretation (fields in .fields)
  Closure      a function defined (or looked up) in interpreted code
"""
import itertools
import z3

_counter = itertools.count()


def fresh_name(base):
    return f"{base}!{next(_counter)}"


def reset_names():
    global _counter
    _counter = itertools.count()


class SV:
    __slots__ = ('t',)

    def __init__(self, t):
        self.t = t

    def sort(self):
        return self.t.sort()

    def is_int(self):
        return z3.is_int(self.t)

    def is_bool(self):
        return z3.is_bool(self.t)

    def is_str(self):
        return self.t.sort() == z3.StringSort()

    def is_seq(self):
        return z3.is_seq(self.t) and not self.is_str()

    def __repr__(self):
        return f"SV({self.t})"

    # guard against accidental native use
    def __bool__(self):
        raise TypeError("SV used in native boolean context: " + repr(self))

    def __eq__(self, other):
        raise TypeError("SV compared natively: " + repr(self))

    def __hash__(self):
        return id(self)


class SOpt:
    """Optional value: isnone (z3 Bool), val (SV payload valid when not isnone)."""
    __slots__ = ('n', 'v')

    def __init__(self, n, v):
        self.n = n
        self.v = v

    def __repr__(self):
        return f"SOpt({self.n}, {self.v})"

    def __bool__(self):
        raise TypeError("SOpt used in native boolean context")

    def __eq__(self, other):
        raise TypeError("SOpt compared natively")

    def __hash__(self):
        return id(self)


class SymList:
    """A mutable list with symbolic content (z3 Seq term). Identity = aliasing."""
    __slots__ = ('t', 'elem', 'tag')

    def __init__(self, t, elem=None, tag=None):
        self.t = t
        self.elem = elem      # optional: callable(term)->value for wrapping an element term
        self.tag = tag

    def __repr__(self):
        return f"SymList({self.t})"


class Obj:
    """Instance of a real class, interpreted."""
    __slots__ = ('cls', 'fields', 'tag')

    def __init__(self, cls, fields=None, tag=None):
        self.cls = cls
        self.fields = fields if fields is not None else {}
        self.tag = tag

    def __repr__(self):
        return f"Obj<{self.cls.__name__} {self.tag or ''} {list(self.fields)}>"


class Closure:
    """A function whose body we interpret: node (FunctionDef/Lambda), defining env chain,
    globals dict (real module dict), mangle class name, qualname."""
    __slots__ = ('node', 'env', 'globs', 'mangle', 'qualname', 'defaults', 'kwdefaults', 'pyfunc')

    def __init__(self, node, env, globs, mangle, qualname, defaults=(), kwdefaults=None, pyfunc=None):
        self.node = node
        self.env = env
        self.globs = globs
        self.mangle = mangle
        self.qualname = qualname
        self.defaults = defaults
        self.kwdefaults = kwdefaults or {}
        self.pyfunc = pyfunc

    def __repr__(self):
        return f"Closure<{self.qualname}>"


class BoundMethod:
    __slots__ = ('fn', 'self_')

    def __init__(self, fn, self_):
        self.fn = fn
        self.self_ = self_


class Uninterp:
    """Opaque symbolic python object (e.g. file handle)."""
    def __init__(self, tag):
        self.tag = tag


SYMTYPES = (SV, SOpt, SymList, Obj, Closure, BoundMethod)


def has_sym(v, _depth=0):
    """Does value v (deeply) contain a symbolic part?"""
    if isinstance(v, (SV, SOpt, SymList, Obj, Closure, BoundMethod, Uninterp)) or getattr(v, '_pyvc_sym', False):
        return True
    if _depth > 6:
        return False
    if isinstance(v, (list, tuple, set, frozenset)):
        return any(has_sym(x, _depth + 1) for x in v)
    if isinstance(v, dict):
        return any(has_sym(x, _depth + 1) for x in v.values()) or any(has_sym(x, _depth + 1) for x in v.keys())
    return False


def mk_int(name):
    return SV(z3.Int(fresh_name(name)))


def mk_bool(name):
    return SV(z3.Bool(fresh_name(name)))


def mk_str(name):
    return SV(z3.String(fresh_name(name)))


def mk_seq(name, elem_sort):
    return z3.Const(fresh_name(name), z3.SeqSort(elem_sort))


def lift(v):
    """Lift a concrete scalar to a z3 term (or return term of an SV)."""
    if isinstance(v, SV):
        return v.t
    if isinstance(v, bool):
        return z3.BoolVal(v)
    if isinstance(v, int):
        return z3.IntVal(v)
    if isinstance(v, str):
        return z3.StringVal(v)
    raise TypeError(f"cannot lift {type(v).__name__}: {v!r}")


def simp(t):
    return z3.simplify(t)


def concrete_of(t):
    """If term t simplifies to a literal, return the python value, else None (wrapped in tuple)."""
    s = z3.simplify(t)
    if z3.is_int_value(s):
        return (s.as_long(),)
    if z3.is_true(s):
        return (True,)
    if z3.is_false(s):
        return (False,)
    if z3.is_string_value(s):
        return (s.as_string() if not hasattr(s, 'py_value') else s.py_value(),)
    return None


def wrap(t):
    """Wrap a z3 term as a value, collapsing literals to concrete Python values."""
    c = concrete_of(t)
    if c is not None:
        return c[0]
    return SV(z3.simplify(t))
