"""Path context: path condition, decision replay, obligations."""
import time
import z3


class Unsupported(Exception):
    """Construct outside the modelled subset -> the unit is undecided (never a violation)."""


class PathEnd(Exception):
    """Path terminated deliberately (e.g. after a loop-preservation check)."""


class PathInfeasible(Exception):
    pass


class Raised(Exception):
    """A Python exception raised by the interpreted program."""

    def __init__(self, exc, cls=None):
        super().__init__(repr(exc))
        self.exc = exc
        self.cls = cls if cls is not None else type(exc)


class Obligation:
    __slots__ = ('name', 'pc', 'goal', 'where', 'kind', 'status', 'backend', 'secs', 'model', 'path', 'extra')

    def __init__(self, name, pc, goal, where='', kind='ensures'):
        self.name = name
        self.pc = pc
        self.goal = goal
        self.where = where
        self.kind = kind
        self.status = None
        self.backend = None
        self.secs = 0.0
        self.model = None
        self.path = None
        self.extra = None


class Ctx:
    FEAS_TIMEOUT_MS = int(__import__('os').environ.get('PYVC_FEAS_MS', '400'))

    def __init__(self, decisions=()):
        self.decisions = list(decisions)
        self.taken = []
        self.pending = []
        self.pc = []
        self.obligations = []
        self.solver = z3.Solver()
        self.solver.set('timeout', self.FEAS_TIMEOUT_MS)
        self.notes = []
        self.feas_checks = 0
        self.effects = []       # (kind, owner, name) global/class stores, heap writes
        self.assumed = []       # named assumptions used on this path

    # -- path condition -------------------------------------------------
    def assume(self, t):
        if isinstance(t, bool):
            if not t:
                raise PathInfeasible()
            return
        t = z3.simplify(t)
        if z3.is_true(t):
            return
        if z3.is_false(t):
            raise PathInfeasible()
        self.pc.append(t)
        self.solver.add(t)

    def feasible(self, t):
        self.feas_checks += 1
        self.solver.push()
        self.solver.add(t)
        r = self.solver.check()
        self.solver.pop()
        return r != z3.unsat     # unknown counts as feasible (sound for proving)

    def branch(self, cond):
        """Decide a symbolic condition (z3 Bool). Returns python bool; forks via replay."""
        if isinstance(cond, bool):
            return cond
        cond = z3.simplify(cond)
        if z3.is_true(cond):
            return True
        if z3.is_false(cond):
            return False
        idx = len(self.taken)
        if idx < len(self.decisions):
            choice = self.decisions[idx]
        else:
            ft = self.feasible(cond)
            # if one side is refuted the other one is feasible (the path condition itself is)
            ff = self.feasible(z3.Not(cond)) if ft else True
            if ft and ff:
                choice = 1
                self.pending.append(self.taken + [0])
            elif ft:
                choice = 1
            elif ff:
                choice = 0
            else:
                raise PathInfeasible()
        self.taken.append(choice)
        if choice:
            self.pc.append(cond)
            self.solver.add(cond)
            return True
        nc = z3.Not(cond)
        self.pc.append(nc)
        self.solver.add(nc)
        return False

    def choose(self, n, label=''):
        """n-way nondeterministic choice (all alternatives explored)."""
        idx = len(self.taken)
        if idx < len(self.decisions):
            c = self.decisions[idx]
        else:
            c = 0
            for k in range(n - 1, 0, -1):
                self.pending.append(self.taken + [k])
        self.taken.append(c)
        return c

    # -- scoped guards (spec-mode short-circuit evaluation) ---------------
    def push_guard(self, g):
        """returns a mark, or None when the guard is infeasible on this path (caller must short-circuit)"""
        self.solver.push()
        self.solver.add(g)
        self.pc.append(('GUARD', g))
        return len(self.pc) - 1

    def pop_guard(self, mark):
        g = self.pc[mark][1]
        inner = self.pc[mark + 1:]
        del self.pc[mark:]
        self.solver.pop()
        for c in inner:
            if isinstance(c, tuple):
                continue
            imp = z3.Implies(g, c)
            self.pc.append(imp)
            self.solver.add(imp)

    # -- obligations ------------------------------------------------------
    def oblige(self, name, goal, where='', kind='ensures', assume_after=True):
        if isinstance(goal, bool):
            goal = z3.BoolVal(goal)
        goal = z3.simplify(goal)
        ob = Obligation(name, [c[1] if isinstance(c, tuple) else c for c in self.pc], goal, where, kind)
        ob.path = list(self.taken)
        self.obligations.append(ob)
        if assume_after and not z3.is_false(goal):
            self.assume(goal)
        return ob
