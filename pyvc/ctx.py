"""Path context: path condition, decision replay, obligations."""
import time
import z3


_lang_cache = {}


def lang_relation(L, R):
    """for all strings x in L:  True if x in R always, False if never, None otherwise (single-variable queries, cached)"""
    key = (L.sexpr(), R.sexpr())
    if key in _lang_cache:
        return _lang_cache[key]
    x = z3.String('lang_probe')
    res = None
    s = z3.Solver()
    s.set('timeout', 3000)
    s.add(z3.InRe(x, L), z3.Not(z3.InRe(x, R)))
    if s.check() == z3.unsat:
        res = True
    else:
        s2 = z3.Solver()
        s2.set('timeout', 3000)
        s2.add(z3.InRe(x, L), z3.InRe(x, R))
        if s2.check() == z3.unsat:
            res = False
    _lang_cache[key] = res
    return res


class Unsupported(Exception):
    """Construct outside the modelled subset -> the unit is undecided (never a violation)."""


class PathEnd(Exception):
    """Path terminated deliberately (e.g. after a loop-preservation check)."""


class PathInfeasible(Exception):
    pass


class Raised(Exception):
    """A Python exception raised by the interpreted program."""

    def __init__(self, exc, cls=None):
        super().__init__(repr(exc))
        self.exc = exc
        self.cls = cls if cls is not None else type(exc)


class Obligation:
    __slots__ = ('name', 'pc', 'goal', 'where', 'kind', 'status', 'backend', 'secs', 'model', 'path', 'extra')

    def __init__(self, name, pc, goal, where='', kind='ensures'):
        self.name = name
        self.pc = pc
        self.goal = goal
        self.where = where
        self.kind = kind
        self.status = None
        self.backend = None
        self.secs = 0.0
        self.model = None
        self.path = None
        self.extra = None


class Ctx:
    FEAS_TIMEOUT_MS = int(__import__('os').environ.get('PYVC_FEAS_MS', '200'))

    USE_CVC5 = True
    FEAS_INT_TIMEOUT_MS = int(__import__('os').environ.get('PYVC_FEAS_INT_MS', '2000'))
    CVC5_FEAS_MS = int(__import__('os').environ.get('PYVC_CVC5_FEAS_MS', '80'))

    def __init__(self, decisions=()):
        self.cvc5_checks = 0
        self.refuted = set()
        self.guard_depth = 0
        self.lang_of = {}
        self.decisions = list(decisions)
        self.taken = []
        self.pending = []
        self.pc = []
        self.obligations = []
        self.solver = z3.Solver()
        self.solver.set('timeout', self.FEAS_TIMEOUT_MS)
        self.notes = []
        self.feas_checks = 0
        self.effects = []       # (kind, owner, name) global/class stores, heap writes
        self.assumed = []       # named assumptions used on this path

    # -- language facts: InRe(x, L) for a plain variable x, used to decide later tests on x without the path ----
    def note_lang(self, t):
        if z3.is_app(t) and t.decl().kind() == z3.Z3_OP_SEQ_IN_RE and z3.is_const(t.arg(0)) \
                and t.arg(0).decl().kind() == z3.Z3_OP_UNINTERPRETED:
            vid = t.arg(0).get_id()
            old = self.lang_of.get(vid)
            self.lang_of[vid] = t.arg(1) if old is None else z3.Intersect(old, t.arg(1))

    def term_in_star(self, t, R):
        """structural proof that the string term t is in the star-closed language R (R = C* for a character class C)"""
        t = z3.simplify(t)
        if z3.is_string_value(t):
            return z3.is_true(z3.simplify(z3.InRe(t, R)))
        if z3.is_app(t) and t.decl().kind() == z3.Z3_OP_SEQ_CONCAT:
            return all(self.term_in_star(t.arg(i), R) for i in range(t.num_args()))
        if z3.is_app(t) and t.decl().kind() == z3.Z3_OP_ITE:
            return self.term_in_star(t.arg(1), R) and self.term_in_star(t.arg(2), R)
        L = self.lang_of.get(t.get_id())
        if L is not None:
            return lang_relation(L, R) is True
        return False

    def fixed_len(self, t):
        """length of the string term if it is the same for every value allowed by its language fact, else None"""
        t = z3.simplify(t)
        if z3.is_string_value(t):
            return z3.simplify(z3.Length(t)).as_long()
        L = self.lang_of.get(t.get_id())
        if L is None:
            return None
        allc = z3.AllChar(z3.ReSort(z3.StringSort()))
        for k in (1, 2, 3, 4):
            if lang_relation(L, z3.Loop(allc, k, k)) is True:
                return k
        return None

    def decide_by_language(self, cond):
        """True / False if the condition follows from (contradicts) the known language of its variable, else None"""
        neg = False
        c = cond
        if z3.is_not(c):
            neg, c = True, c.arg(0)
        ans = None
        if z3.is_app(c) and c.decl().kind() == z3.Z3_OP_SEQ_IN_RE and c.arg(0).get_id() in self.lang_of:
            ans = lang_relation(self.lang_of[c.arg(0).get_id()], c.arg(1))
        elif z3.is_app(c) and c.decl().kind() == z3.Z3_OP_LE and c.num_args() == 2:
            # Length(x) <= 0
            a, b = c.arg(0), c.arg(1)
            if z3.is_app(a) and a.decl().kind() == z3.Z3_OP_SEQ_LENGTH and z3.is_int_value(b) and b.as_long() == 0 \
                    and a.arg(0).get_id() in self.lang_of:
                ans = lang_relation(self.lang_of[a.arg(0).get_id()], z3.Re(''))
        if ans is None:
            return None
        return (not ans) if neg else ans

    # -- path condition -------------------------------------------------
    def assume(self, t):
        if isinstance(t, bool):
            if not t:
                raise PathInfeasible()
            return
        t = z3.simplify(t)
        if z3.is_true(t):
            return
        if z3.is_false(t):
            raise PathInfeasible()
        self.pc.append(t)
        self.note_lang(t)

    def feasible(self, t):
        """fresh solver per query: z3's incremental mode is far weaker on strings than a one-shot check"""
        # syntactic shortcuts: the condition or its negation is already on the path
        tid = t.get_id() if z3.is_expr(t) else None
        if tid is not None:
            ids = {(c[1] if isinstance(c, tuple) else c).get_id() for c in self.pc}
            if tid in ids:
                return True
            if z3.is_not(t) and t.arg(0).get_id() in ids:
                return False
            if tid in self.refuted:
                return False
        self.feas_checks += 1
        from . import smt
        cs = [c[1] if isinstance(c, tuple) else c for c in self.pc] + [t]
        stringy = z3.is_expr(t) and (smt.has_strings(t) or any(smt.has_strings(c) for c in cs[-12:]))
        if stringy and self.USE_CVC5:
            # cvc5 refutes infeasible string paths in milliseconds; both solvers are slow to *find* string models,
            # so "not refuted quickly" counts as feasible (sound: more paths, never fewer)
            r2 = smt.cvc5_check(cs, self.CVC5_FEAS_MS)
            self.cvc5_checks += 1
            if r2 == 'unsat' and tid is not None and not self.guard_depth:
                self.refuted.add(tid)
            return r2 != 'unsat'
        s = z3.Solver()
        s.set('timeout', self.FEAS_INT_TIMEOUT_MS)      # arithmetic / boolean path conditions: z3 answers in milliseconds unless the machine is loaded
        for c in cs:
            s.add(c)
        r = s.check()
        if r == z3.unknown and self.USE_CVC5:
            r2 = smt.cvc5_check(cs, self.CVC5_FEAS_MS)
            self.cvc5_checks += 1
            return r2 != 'unsat'
        if r == z3.unsat and tid is not None and not self.guard_depth:
            self.refuted.add(tid)       # stays refuted: the path condition only grows
        return r != z3.unsat     # unknown counts as feasible (sound for proving)

    def feasible_strong(self, budget_ms=1500):
        """a more expensive infeasibility test used at the few points where many spurious paths are born
        (after a regex alternative was chosen): both solvers, larger budget; unknown counts as feasible"""
        from . import smt
        cs = [c[1] if isinstance(c, tuple) else c for c in self.pc]
        r2 = smt.cvc5_check(cs, budget_ms)
        if r2 == 'unsat':
            return False
        if r2 == 'sat':
            return True
        s = z3.Solver()
        s.set('timeout', budget_ms)
        for c in cs:
            s.add(c)
        return s.check() != z3.unsat

    def branch(self, cond):
        """Decide a symbolic condition (z3 Bool). Returns python bool; forks via replay."""
        if isinstance(cond, bool):
            return cond
        cond = z3.simplify(cond)
        if z3.is_true(cond):
            return True
        if z3.is_false(cond):
            return False
        known = self.decide_by_language(cond)
        if known is not None:
            return known        # implied by a language fact already on the path: nothing to add
        idx = len(self.taken)
        if idx < len(self.decisions):
            choice = self.decisions[idx]
        else:
            ft = self.feasible(cond)
            # if one side is refuted the other one is feasible (the path condition itself is)
            ff = self.feasible(z3.Not(cond)) if ft else True
            if ft and ff:
                choice = 1
                self.pending.append(self.taken + [0])
            elif ft:
                choice = 1
            elif ff:
                choice = 0
            else:
                raise PathInfeasible()
        self.taken.append(choice)
        if choice:
            self.pc.append(cond)
            self.note_lang(cond)
            return True
        nc = z3.Not(cond)
        self.pc.append(nc)
        return False

    def choose(self, n, label=''):
        """n-way nondeterministic choice (all alternatives explored)."""
        idx = len(self.taken)
        if idx < len(self.decisions):
            c = self.decisions[idx]
        else:
            c = 0
            for k in range(n - 1, 0, -1):
                self.pending.append(self.taken + [k])
        self.taken.append(c)
        return c

    # -- scoped guards (spec-mode short-circuit evaluation) ---------------
    def push_guard(self, g):
        """returns a mark, or None when the guard is infeasible on this path (caller must short-circuit)"""
        self.pc.append(('GUARD', g))
        self.guard_depth += 1
        return len(self.pc) - 1

    def pop_guard(self, mark):
        g = self.pc[mark][1]
        inner = self.pc[mark + 1:]
        del self.pc[mark:]
        self.guard_depth -= 1
        for c in inner:
            if isinstance(c, tuple):
                continue
            imp = z3.Implies(g, c)
            self.pc.append(imp)

    # -- obligations ------------------------------------------------------
    def oblige(self, name, goal, where='', kind='ensures', assume_after=True):
        if isinstance(goal, bool):
            goal = z3.BoolVal(goal)
        goal = z3.simplify(goal)
        ob = Obligation(name, [c[1] if isinstance(c, tuple) else c for c in self.pc], goal, where, kind)
        ob.path = list(self.taken)
        self.obligations.append(ob)
        if assume_after and not z3.is_false(goal):
            self.assume(goal)
        return ob
