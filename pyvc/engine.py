"""Run one Unit: explore all paths of the real function, generate and discharge obligations."""
import hashlib
import importlib
import inspect
import os
import subprocess
import tempfile
import time
import traceback
import types

import z3

from .values import SV, SOpt, SymList, Obj, Closure, reset_names, has_sym, wrap
from .ctx import Ctx, Unsupported, PathEnd, PathInfeasible, Raised
from .interp import Interp, Frame, func_ast, nested_func_ast, _Return
from . import api, models, rx

rx.install(models)

Z3_TIMEOUT_MS = int(os.environ.get('PYVC_Z3_TIMEOUT_MS', '20000'))
Z3_FIRST_MS = int(os.environ.get('PYVC_Z3_FIRST_MS', '1500'))
CVC5_TIMEOUT_S = int(os.environ.get('PYVC_CVC5_TIMEOUT_S', '30'))
MAX_PATHS = int(os.environ.get('PYVC_MAX_PATHS', '4000'))


def resolve_target(target):
    """'pkg.mod:A.b.c' -> (python object or None, module, file path, qual parts)"""
    modname, qual = target.split(':')
    mod = importlib.import_module(modname)
    parts = qual.split('.')
    obj = mod
    owner = None
    ok = True
    for p in parts:
        try:
            owner = obj
            obj = inspect.getattr_static(obj, p) if isinstance(obj, type) else getattr(obj, p)
        except AttributeError:
            ok = False
            break
    return (obj if ok else None), mod, mod.__file__, parts


def snapshot(v, in_list=False):
    """entry-state copy for old_<param>: containers are copied, objects held *inside lists* keep their identity
    (so that `is` in contracts talks about the same elements); objects held in fields are copied recursively"""
    if isinstance(v, SymList):
        return SymList(v.t, v.elem)
    if isinstance(v, list):
        return [snapshot(x, True) for x in v]
    if isinstance(v, models.ADict):
        d = models.ADict()
        for k, x in v.entries:
            d.entries.append([k, snapshot(x, in_list)])
            if not isinstance(k, (SV, SOpt)):
                dict.__setitem__(d, k, d.entries[-1][1])
        return d
    if isinstance(v, dict):
        return {k: snapshot(x, in_list) for k, x in v.items()}
    if isinstance(v, Obj):
        if in_list:
            return v
        return Obj(v.cls, {k: snapshot(x) for k, x in v.fields.items()}, tag=(v.tag or '') + '@old')
    return v


class PathResult:
    def __init__(self):
        self.obligations = []
        self.outcome = None
        self.values = None
        self.notes = []
        self.assumed = []


def run_path(unit, decisions, contracts):
    reset_names()
    ctx = Ctx(decisions)
    saved_models = dict(models._MODELS)      # abstraction contracts registered by a unit's setup are local to the path
    try:
        return _run_path(unit, decisions, contracts, ctx)
    except PathInfeasible:
        # the alternatives discovered before the path died must still be explored
        return ctx, 'infeasible', {}, None, None
    finally:
        models._MODELS.clear()
        models._MODELS.update(saved_models)


def _run_path(unit, decisions, contracts, ctx):
    """Execute one path. Returns (ctx, outcome, env_values)"""
    ip = Interp(ctx, contracts=contracts, verify_target=None)
    ip.hooks['max_unroll'] = unit.max_unroll
    ip.hooks.update(unit.hooks)
    ip.hooks['objseq_names'] = True
    obj, mod, path, parts = resolve_target(unit.target)
    # function AST
    is_nested = False
    if obj is not None and isinstance(obj, (staticmethod, classmethod)):
        obj = obj.__func__
    if isinstance(obj, property):
        raise Unsupported("property as unit target: name fget/fset explicitly")
    if isinstance(obj, types.FunctionType):
        clo = ip.to_closure(obj)
        ip.verify_target = obj.__qualname__
    else:
        node, cls = nested_func_ast(path, '.'.join(parts))
        is_nested = True
        parent = Frame(None, mod.__dict__, cls, '.'.join(parts[:-1]))
        # defaults evaluated in the module scope
        clo = Closure(node, parent, mod.__dict__, cls, '.'.join(parts), (), None)
        fr0 = Frame(parent, mod.__dict__, cls, 'defaults')
        clo.defaults = tuple(ip.eval(d, fr0) for d in node.args.defaults)
        ip.verify_target = '.'.join(parts)
    for (q, ordn), lp in unit.loops.items() if unit.loops and isinstance(next(iter(unit.loops)), tuple) else \
            [((clo.qualname.replace('.<locals>', ''), k), v) for k, v in unit.loops.items()]:
        lp.ordinal = ordn
        ip.loop_contracts[(q, ordn)] = lp
    # closure environment for nested targets
    if unit.env:
        par = clo.env if clo.env is not None else Frame(None, clo.globs, clo.mangle, 'env')
        clo.env = par
        for k, tshape in unit.env.items():
            par.locals[k] = tshape.make(ip, k) if isinstance(tshape, api.T) else tshape
        if unit.setup is not None:
            unit.setup(ip, par.locals)
    # parameters
    vals = {}
    for k, tshape in unit.params.items():
        vals[k] = tshape.make(ip, k) if isinstance(tshape, api.T) else tshape
    env_all = dict(vals)
    for k, tshape in unit.ghost.items():
        env_all[k] = tshape.make(ip, k) if isinstance(tshape, api.T) else tshape
    if unit.env and clo.env is not None:
        for k in unit.env:
            env_all.setdefault(k, clo.env.locals[k])
    if unit.setup_params is not None:
        unit.setup_params(ip, env_all)
    if unit.requires is not None:
        ctx.assume(api.call_spec(ip, unit.requires, env_all))
    if not ctx.feasible(z3.BoolVal(True)):
        raise PathInfeasible()
    old = {k: snapshot(v) for k, v in vals.items()}
    frame_entry = dict(old)
    outcome = None
    result = None
    exc = None
    try:
        # call with entry snapshot available to loop invariants
        frame = Frame(clo.env, clo.globs, clo.mangle, clo.qualname, clo)
        frame.locals.update(ip.bind_args(clo, [], dict(vals)))
        frame.entry = frame_entry
        if getattr(obj, '__pyvc_native__', False):
            result = obj(**vals)          # a native (syntactic) obligation, e.g. the package-wide store scan
        else:
            try:
                ip.exec_block(clo.node.body, frame)
                result = None
            except _Return as r:
                result = r.v
        outcome = 'return'
    except Raised as r:
        outcome = 'raise'
        exc = r
    except PathEnd:
        return ctx, 'pathend', env_all, None, None
    # postconditions
    post_env = dict(env_all)
    for k, v in old.items():
        post_env['old_' + k] = v
    post_env['result'] = result
    post_env['effects'] = ctx.effects
    post_env['locals_'] = frame.locals
    post_env['hooks_'] = ip.hooks
    post_env['ghosts_'] = dict(env_all)
    if outcome == 'return' and isinstance(result, api.Lemmas):
        for label, formula in result.items:
            ctx.oblige(f"{unit.name}/lemma.{label}", formula, kind='lemma', assume_after=False)
    elif outcome == 'return':
        for label, fn in unit.ensures:
            clo_s = ip.to_closure(fn)
            names = [p.arg for p in clo_s.node.args.args]
            try:
                t = api.call_spec(ip, fn, {n: post_env[n] for n in names})
            except PathEnd:
                return ctx, 'pathend', env_all, None, None      # outside an explored bound (recorded as assumption)
            except Raised as r:
                # the clause itself is not defined on this outcome (e.g. indexes a missing row): it does not hold
                ob = ctx.oblige(f"{unit.name}/ensures.{label}", False, kind='ensures', assume_after=False)
                ob.extra = f"contract clause raised {r.exc!r}"[:200]
                continue
            ctx.oblige(f"{unit.name}/ensures.{label}", t, kind='ensures', assume_after=False)
    else:
        allowed = None
        for ecls, cond in unit.raises.items():
            if issubclass(exc.cls, ecls):
                allowed = cond
                break
        label = f"{unit.name}/raises.{exc.cls.__name__}"
        if allowed is None:
            ctx.oblige(label, False, kind='raises', assume_after=False).extra = repr(exc.exc)[:200]
        elif allowed is True:
            ctx.oblige(label, True, kind='raises', assume_after=False)
        else:
            names = [p.arg for p in ip.to_closure(allowed).node.args.args]
            t = api.call_spec(ip, allowed, {n: post_env[n] for n in names})
            ctx.oblige(label, t, kind='raises', assume_after=False)
    if unit.check_effects is not None:
        for label, ok in unit.check_effects(ip, ctx, post_env):
            ctx.oblige(f"{unit.name}/frame.{label}", ok, kind='frame', assume_after=False)
    return ctx, outcome, env_all, result, exc


def discharge(ob, vals, unit):
    """Decide one obligation; a conjunctive goal is split and every conjunct decided on its own (smaller queries)."""
    g = z3.simplify(ob.goal)
    parts = conjuncts(g)
    if len(parts) <= 1:
        return discharge1(ob, vals, unit)
    t0 = time.time()
    from .ctx import Obligation
    backends = set()
    for k, part in enumerate(parts):
        sub = Obligation(ob.name, ob.pc, part, ob.where, ob.kind)
        discharge1(sub, vals, unit)
        if sub.status != 'discharged':
            ob.status, ob.backend, ob.model = sub.status, sub.backend, sub.model
            ob.extra = ((ob.extra or '') + f' conjunct {k + 1}/{len(parts)}: ' + str(part)[:300]).strip()
            ob.secs = round(time.time() - t0, 3)
            return
        backends.add(sub.backend)
    ob.status = 'discharged'
    ob.backend = '+'.join(sorted(b for b in backends if b))
    ob.secs = round(time.time() - t0, 3)


def conjuncts(g):
    out = []

    def walk(t):
        if z3.is_and(t):
            for i in range(t.num_args()):
                walk(t.arg(i))
        else:
            out.append(t)
    walk(g)
    return out


def discharge1(ob, vals, unit):
    """Decide one obligation. status: 'discharged' | 'failed' | 'undecided'"""
    t0 = time.time()
    g = z3.simplify(ob.goal)
    if z3.is_true(g):
        ob.status, ob.backend, ob.secs = 'discharged', 'simplifier', 0.0
        return
    from . import smt
    cs = list(ob.pc) + [z3.Not(g)]
    stringy = any(smt.has_strings(c) for c in cs)
    order = ['cvc5-quick', 'z3-quick', 'cvc5', 'z3'] if stringy else ['z3-quick', 'cvc5-quick', 'z3', 'cvc5']
    tried = []
    cvc5_sat = False
    for be in order:
        if be.startswith('cvc5'):
            r = smt.cvc5_check(cs, 2500 if be.endswith('quick') else CVC5_TIMEOUT_S * 1000)
            tried.append(f'{be}:{r[:12]}')
            if r == 'unsat':
                ob.status, ob.backend = 'discharged', 'cvc5-1.4.0'
                break
            if r == 'sat':
                cvc5_sat = True        # a definite refutation; the counter-model is taken from z3 below if it finds one
            continue
        s = z3.Solver()
        s.set('timeout', Z3_FIRST_MS if be.endswith('quick') else Z3_TIMEOUT_MS)
        if not be.endswith('quick'):
            s.set('random_seed', 7)
        for c in cs:
            s.add(c)
        r = s.check()
        tried.append(f'{be}:{r}')
        if r == z3.unsat:
            ob.status, ob.backend = 'discharged', 'z3-' + z3.get_version_string()
            break
        if r == z3.sat:
            m = s.model()
            hints = small_hints(vals)
            if hints:
                s.push()
                s.set('timeout', 2000)
                s.add(*hints)
                if s.check() == z3.sat:
                    m = s.model()
                s.pop()
            ob.status, ob.backend = 'failed', 'z3-' + z3.get_version_string()
            try:
                ob.model = {k: api.concretize(m, v) for k, v in vals.items()}
            except Exception as e:   # model projection is best effort
                ob.model = {'<projection-error>': repr(e)}
            break
    else:
        if cvc5_sat:
            # cvc5 found the negated obligation satisfiable but no model is carried over: the obligation fails, without a failing input
            ob.status, ob.backend, ob.model = 'failed', 'cvc5-1.4.0', None
            ob.extra = ((ob.extra + '; ') if ob.extra else '') + 'cvc5: sat (no counter-model extracted); ' + ' '.join(tried)
        else:
            ob.status, ob.backend = 'undecided', ' '.join(tried)
    ob.secs = round(time.time() - t0, 3)


def small_hints(vals):
    """prefer small counter-models: short ghost lists / strings"""
    out = []

    def walk(v, d=0):
        if d > 4:
            return
        if isinstance(v, models.GhostList):
            out.append(v.seq.length.t <= 4 if isinstance(v.seq.length, SV) else z3.BoolVal(True))
        elif isinstance(v, SymList):
            out.append(z3.Length(v.t) <= 4)
        elif isinstance(v, SV) and v.is_str():
            out.append(z3.Length(v.t) <= 12)
        elif isinstance(v, Obj):
            for x in v.fields.values():
                walk(x, d + 1)
        elif isinstance(v, (list, tuple)):
            for x in v:
                walk(x, d + 1)
        elif isinstance(v, dict):
            for x in v.values():
                walk(x, d + 1)
    for v in vals.values():
        walk(v)
    return out


def run_cvc5(smt2):
    exe = '/usr/bin/cvc5'
    if not os.path.exists(exe):
        return 'unavailable', ''
    # z3 prints some z3-only symbols; translate the common ones
    txt = smt2
    if 'seq.nth_u' in txt or 'seq.nth_i' in txt:
        txt = txt.replace('seq.nth_u', 'seq.nth').replace('seq.nth_i', 'seq.nth')
    txt = '(set-logic ALL)\n' + txt
    with tempfile.NamedTemporaryFile('w', suffix='.smt2', delete=False, dir=os.environ.get('PYVC_TMP', None)) as f:
        f.write(txt)
        p = f.name
    try:
        out = subprocess.run([exe, '--strings-exp', f'--tlimit={CVC5_TIMEOUT_S * 1000}', p], capture_output=True,
                             text=True, timeout=CVC5_TIMEOUT_S + 10)
        res = out.stdout.strip().split('\n')[0] if out.stdout.strip() else 'error'
        return res, out.stdout + out.stderr
    except subprocess.TimeoutExpired:
        return 'timeout', ''
    finally:
        try:
            os.unlink(p)
        except OSError:
            pass


def source_hash(unit):
    obj, mod, path, parts = resolve_target(unit.target)
    try:
        if isinstance(obj, (staticmethod, classmethod)):
            obj = obj.__func__
        if isinstance(obj, types.FunctionType):
            node, _ = func_ast(obj)
        else:
            node, _ = nested_func_ast(path, '.'.join(parts))
        import ast
        return hashlib.sha256(ast.dump(node).encode()).hexdigest()[:16], path, node.lineno
    except Exception:
        return None, path, None


def run_unit(unit, contracts=None, work=None, budget=None):
    """Explore every path; returns a plain-data result dict."""
    t0 = time.time()
    contracts = dict(contracts or {})
    for c in unit.uses:
        contracts[c.qualname] = c
    res = {
        'unit': unit.name, 'target': unit.target, 'prop': unit.prop, 'obligations': [], 'paths': 0,
        'status': 'ok', 'error': None, 'assumed': set(), 'notes': [], 'returns': 0, 'raises': 0,
    }
    h, path, line = source_hash(unit)
    res['source_hash'], res['file'], res['line'] = h, path, line
    work = [list(w) for w in work] if work is not None else [[]]
    res['pending'] = []
    try:
        while work:
            if budget is not None and res['paths'] >= budget:
                res['pending'] = work
                break
            decisions = work.pop()
            if res['paths'] >= MAX_PATHS:
                raise Unsupported(f"path budget {MAX_PATHS} exceeded")
            if unit.timeout_s and time.time() - t0 > unit.timeout_s:
                raise Unsupported(f"unit time budget {unit.timeout_s}s exceeded")
            ctx, outcome, vals, result, exc = run_path(unit, decisions, contracts)
            if outcome == 'infeasible':
                work.extend(ctx.pending)
                res['infeasible'] = res.get('infeasible', 0) + 1
                continue
            res['paths'] += 1
            if os.environ.get('PYVC_PROGRESS'):
                import sys as _s
                print(f"  path {res['paths']} {outcome} dec={decisions} feas={ctx.feas_checks} obl={len(ctx.obligations)} t={time.time()-t0:.1f}", file=_s.stderr, flush=True)
            if outcome == 'return':
                res['returns'] += 1
            elif outcome == 'raise':
                res['raises'] += 1
            work.extend(ctx.pending)
            res['assumed'].update(ctx.assumed)
            res['notes'].extend(n for n in ctx.notes if n[0] != 'warning')
            for ob in ctx.obligations:
                discharge(ob, vals, unit)
                entry = {
                    'name': ob.name, 'status': ob.status, 'backend': ob.backend, 'secs': ob.secs, 'kind': ob.kind,
                    'path': ob.path, 'model': ob.model, 'extra': ob.extra,
                }
                res['obligations'].append(entry)
    except Unsupported as e:
        res['status'] = 'undecided'
        res['error'] = f"unsupported: {e}"
    except Exception as e:
        res['status'] = 'error'
        res['error'] = traceback.format_exc()[-3000:]
    res['assumed'] = sorted(res['assumed'])
    res['notes'] = [repr(n) for n in res['notes'][:20]]
    res['secs'] = round(time.time() - t0, 3)
    return res


