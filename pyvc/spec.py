"""Spec helper functions usable inside contracts.  Each has a native meaning (used when a counterexample is replayed
on concrete values) and a symbolic model (registered below)."""
import re as _re
import z3

from . import models
from .values import SV, SOpt, SymList, Obj, wrap, lift, has_sym
from .ctx import Unsupported


def implies(a, b):
    return (not a) or bool(b)


def iff(a, b):
    return bool(a) == bool(b)


def in_re(s, pattern):
    """s fully matches the (python) regular expression `pattern`"""
    return s is not None and _re.fullmatch(pattern, s) is not None


def elem_at(lst, i):
    return lst[i]


def ghost_log(lst):
    return getattr(lst, 'log', [])


def key_of(logentry, x):
    return logentry[1](x)


def str_of_int(n):
    return str(n)


def int_of_str(s):
    return int(s)


# ---- symbolic models -----------------------------------------------------------------------------------------
def _truth_term(ip, v):
    t = ip.truth(v)
    return z3.BoolVal(t) if isinstance(t, bool) else t


@models.model(iff)
def _m_iff(ip, args, kwargs, node):
    return wrap(_truth_term(ip, args[0]) == _truth_term(ip, args[1]))


@models.model(in_re)
def _m_in_re(ip, args, kwargs, node):
    s, pattern = args
    from .rx import Pat
    if isinstance(s, SOpt):
        inner = _m_in_re(ip, [s.v, pattern], {}, node)
        it = inner if not isinstance(inner, bool) else z3.BoolVal(inner)
        return wrap(z3.And(z3.Not(s.n), lift(it) if not z3.is_expr(it) else it))
    if s is None:
        return False
    if isinstance(s, str):
        return _re.fullmatch(pattern, s) is not None
    if not (isinstance(s, SV) and s.is_str()):
        return False
    pat = Pat.of(_re.compile(pattern))
    if structural_member(ip, s.t, pat):
        return True
    return wrap(z3.InRe(s.t, pat.body_lang()))


@models.model(elem_at)
def _m_elem_at(ip, args, kwargs, node):
    lst, i = args
    if isinstance(lst, models.GhostList):
        return lst.seq.at(ip, lift(i))
    if isinstance(lst, models.ObjSeq):
        return lst.at(ip, lift(i))
    return ip.subscript(lst, i, node)


@models.model(ghost_log)
def _m_ghost_log(ip, args, kwargs, node):
    return args[0].log


@models.model(key_of)
def _m_key_of(ip, args, kwargs, node):
    entry, x = args
    return ip.call(entry[1], [x], {})


@models.model(str_of_int)
def _m_str_of_int(ip, args, kwargs, node):
    return models.py_str(ip, args[0], node)


SPECIAL_IMPLIES = implies


def name_in_table(fn, table):
    """the key under which the function object `fn` is stored in the dict `table` (None if absent)"""
    for nm in table:
        if table[nm] is fn:
            return nm
    return None


@models.model(name_in_table)
def _m_name_in_table(ip, args, kwargs, node):
    fn, table = args
    if isinstance(fn, models.LazyPick):
        if fn.table is table:
            return fn.key
        return None
    for nm in table:
        if table[nm] is fn:
            return nm
    return None


@models.model(int_of_str)
def _m_int_of_str(ip, args, kwargs, node):
    """spec-level int(): defined on digit strings (pure, no fork); other strings give an unconstrained value"""
    v = args[0]
    if isinstance(v, str):
        return int(v)
    if isinstance(v, SOpt):
        v = v.v
    if ip.ctx.decide_by_language(z3.InRe(v.t, models.DIGITS1)) is True:
        return models.int_of_digits(ip, v.t)
    r = z3.Int(models.fresh_name('spec_int'))
    ip.ctx.assume(z3.Implies(z3.InRe(v.t, models.DIGITS1), r == z3.StrToInt(v.t)))
    models.str_to_int_facts_guarded(ip, v.t, r)
    return SV(r)


def structural_member(ip, t, pat):
    """sufficient condition for  t in Lang(pat): t is a concatenation whose parts (literals / variables with a language fact)
    can be aligned with consecutive items of the pattern's top-level sequence by language inclusion"""
    from .rx import _flat_parts
    from .ctx import lang_relation
    from .api import zstr
    try:
        items = list(pat.tree)
        if pat.has_assert(items):
            return False
        parts = _flat_parts(t)
        langs = []
        for p in parts:
            if z3.is_string_value(p):
                langs.append(z3.Re(zstr(p)))
            else:
                L = ip.ctx.lang_of.get(p.get_id())
                if L is None:
                    return False
                langs.append(L)
        n = len(items)
        memo = {}

        def go(i, a):
            if i == len(langs):
                return a == n or lang_relation(z3.Re(''), pat.lang_items(items[a:])) is True
            key = (i, a)
            if key in memo:
                return memo[key]
            ok = False
            for b in range(a, n + 1):
                if lang_relation(langs[i], pat.lang_items(items[a:b]) if b > a else z3.Re('')) is True and go(i + 1, b):
                    ok = True
                    break
            memo[key] = ok
            return ok
        return go(0, 0)
    except Exception:
        return False
