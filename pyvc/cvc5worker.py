"""cvc5 worker process: reads '<nbytes> <tlimit_ms>\n<smt2 text>' requests on stdin, answers one line per request.
Runs in its own process so that the parent can enforce a hard deadline (cvc5's own tlimit is not always honoured)."""
import sys


def main():
    import cvc5
    inp = sys.stdin.buffer
    out = sys.stdout
    while True:
        head = inp.readline()
        if not head:
            return
        n, tl = head.split()
        txt = inp.read(int(n)).decode('utf-8')
        try:
            tm = cvc5.TermManager() if hasattr(cvc5, 'TermManager') else None
            slv = cvc5.Solver(tm) if tm is not None else cvc5.Solver()
            slv.setOption('strings-exp', 'true')
            slv.setOption('tlimit-per', str(int(tl)))
            p = cvc5.InputParser(slv)
            p.setStringInput(cvc5.InputLanguage.SMT_LIB_2_6, txt, 'pyvc')
            sm = p.getSymbolManager()
            res = 'unknown'
            while True:
                cmd = p.nextCommand()
                if cmd.isNull():
                    break
                o = cmd.invoke(slv, sm).strip()
                if o in ('sat', 'unsat', 'unknown'):
                    res = o
        except Exception as e:
            res = 'error:' + str(e).replace('\n', ' ')[:200]
        out.write(res + '\n')
        out.flush()


if __name__ == '__main__':
    main()
