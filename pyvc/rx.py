"""Regex front end: CPython's own re._parser tree of the *real* pattern -> SMT RegLan, and a structural
encoding of match objects that over-approximates the engine's choice (any valid parse of any occurrence).

Assumption A-CLASS: \\d \\s \\w \\b and IGNORECASE are modelled with their ASCII definitions.
"""
import re as _re
try:
    import re._parser as sre_parse
    import re._constants as sre_c
except ImportError:           # python < 3.11
    import sre_parse
    import sre_constants as sre_c

import z3

from .values import SV, SOpt, SymList, fresh_name, wrap, lift, has_sym
from .ctx import Unsupported, Raised

STR = z3.StringSort()
RE = z3.ReSort(STR)
ALLCHAR = z3.AllChar(RE)
FULL = z3.Full(RE)
EPS = z3.Re('')

_WORD = z3.Union(z3.Range('a', 'z'), z3.Range('A', 'Z'), z3.Range('0', '9'), z3.Re('_'))
_NONWORD = z3.Diff(ALLCHAR, _WORD)
_DIGIT = z3.Range('0', '9')
_SPACE = z3.Union(*[z3.Re(c) for c in ' \t\n\r\x0b\x0c'])
_CATS = {
    sre_c.CATEGORY_DIGIT: _DIGIT, sre_c.CATEGORY_NOT_DIGIT: z3.Diff(ALLCHAR, _DIGIT),
    sre_c.CATEGORY_SPACE: _SPACE, sre_c.CATEGORY_NOT_SPACE: z3.Diff(ALLCHAR, _SPACE),
    sre_c.CATEGORY_WORD: _WORD, sre_c.CATEGORY_NOT_WORD: _NONWORD,
}


def _union(xs):
    xs = list(xs)
    if not xs:
        return z3.Empty(RE)
    if len(xs) == 1:
        return xs[0]
    return z3.Union(*xs)


def _concat(xs):
    xs = [x for x in xs]
    if not xs:
        return EPS
    if len(xs) == 1:
        return xs[0]
    return z3.Concat(*xs)


def _lit(code, icase):
    ch = chr(code)
    if icase and ch.lower() != ch.upper() and len(ch.lower()) == 1 and len(ch.upper()) == 1:
        return z3.Union(z3.Re(ch.lower()), z3.Re(ch.upper()))
    return z3.Re(ch)


def _range(lo, hi, icase):
    r = z3.Range(chr(lo), chr(hi))
    if icase:
        extra = []
        # case-expand the ASCII letters part of the range
        for a, b, delta in ((ord('a'), ord('z'), -32), (ord('A'), ord('Z'), 32)):
            l, h = max(lo, a), min(hi, b)
            if l <= h:
                extra.append(z3.Range(chr(l + delta), chr(h + delta)))
        if extra:
            r = z3.Union(r, *extra)
    return r


def _in_set(items, icase):
    neg = False
    parts = []
    for op, av in items:
        if op is sre_c.NEGATE:
            neg = True
        elif op is sre_c.LITERAL:
            parts.append(_lit(av, icase))
        elif op is sre_c.RANGE:
            parts.append(_range(av[0], av[1], icase))
        elif op is sre_c.CATEGORY:
            parts.append(_CATS[av])
        else:
            raise Unsupported(f"regex set item {op}")
    u = _union(parts)
    return z3.Diff(ALLCHAR, u) if neg else u


class Pat:
    """Parsed real pattern."""
    _cache = {}

    def __init__(self, pattern, flags=0):
        if isinstance(pattern, _re.Pattern):
            self.src = pattern.pattern
            self.flags = pattern.flags
            self.compiled = pattern
        else:
            self.src = pattern
            self.flags = flags
            self.compiled = _re.compile(pattern, flags)
            self.flags = self.compiled.flags
        self.tree = sre_parse.parse(self.src, self.flags & ~_re.UNICODE if False else self.flags)
        self.icase = bool(self.flags & _re.IGNORECASE)
        self.dotall = bool(self.flags & _re.DOTALL)
        self.multiline = bool(self.flags & _re.MULTILINE)
        self.groupindex = dict(self.compiled.groupindex)
        self.ngroups = self.compiled.groups

    @classmethod
    def of(cls, pattern, flags=0):
        key = (pattern.pattern, pattern.flags) if isinstance(pattern, _re.Pattern) else (pattern, flags)
        if key not in cls._cache:
            cls._cache[key] = cls(pattern, flags)
        return cls._cache[key]

    # ---- pure language (captures ignored; assertions must be absent) ----
    def lang_items(self, items, strict=True):
        return _concat([self.lang_item(op, av, strict) for op, av in items])

    def lang_item(self, op, av, strict=True):
        if op is sre_c.LITERAL:
            return _lit(av, self.icase)
        if op is sre_c.NOT_LITERAL:
            return z3.Diff(ALLCHAR, _lit(av, self.icase))
        if op is sre_c.ANY:
            return ALLCHAR if self.dotall else z3.Diff(ALLCHAR, z3.Re('\n'))
        if op is sre_c.IN:
            return _in_set(av, self.icase)
        if op is sre_c.BRANCH:
            return _union([self.lang_items(alt, strict) for alt in av[1]])
        if op is sre_c.SUBPATTERN:
            gid, add, dele, sub = av
            if add or dele:
                raise Unsupported("inline flag groups")
            return self.lang_items(sub, strict)
        if op in (sre_c.MAX_REPEAT, sre_c.MIN_REPEAT) or (hasattr(sre_c, 'POSSESSIVE_REPEAT') and op is sre_c.POSSESSIVE_REPEAT):
            lo, hi, sub = av
            r = self.lang_items(sub, strict)
            if hi is sre_c.MAXREPEAT:
                if lo == 0:
                    return z3.Star(r)
                if lo == 1:
                    return z3.Plus(r)
                return z3.Concat(z3.Loop(r, lo, lo), z3.Star(r))
            if lo == 0 and hi == 1:
                return z3.Option(r)
            return z3.Loop(r, lo, hi)
        if op in (sre_c.AT, sre_c.ASSERT, sre_c.ASSERT_NOT):
            if strict:
                raise Unsupported("assertion inside pure-language translation")
            return EPS        # over-approximation: assertion dropped
        if hasattr(sre_c, 'ATOMIC_GROUP') and op is sre_c.ATOMIC_GROUP:
            return self.lang_items(av, strict)
        raise Unsupported(f"regex construct {op}")

    def has_assert(self, items):
        for op, av in items:
            if op in (sre_c.AT, sre_c.ASSERT, sre_c.ASSERT_NOT):
                return True
            if op is sre_c.BRANCH:
                if any(self.has_assert(a) for a in av[1]):
                    return True
            elif op is sre_c.SUBPATTERN:
                if self.has_assert(av[3]):
                    return True
            elif op in (sre_c.MAX_REPEAT, sre_c.MIN_REPEAT):
                if self.has_assert(av[2]):
                    return True
        return False

    def has_group(self, items):
        for op, av in items:
            if op is sre_c.SUBPATTERN:
                if av[0] is not None or self.has_group(av[3]):
                    return True
            elif op is sre_c.BRANCH:
                if any(self.has_group(a) for a in av[1]):
                    return True
            elif op in (sre_c.MAX_REPEAT, sre_c.MIN_REPEAT):
                if self.has_group(av[2]):
                    return True
            elif op in (sre_c.ASSERT, sre_c.ASSERT_NOT):
                if self.has_group(av[1]):
                    return True
        return False

    def body_lang(self, strict=True):
        return self.lang_items(list(self.tree), strict)

    # ---- whole-string language of "search succeeds" (exact when assertions sit only at the edges) ----
    def search_lang(self, mode='search'):
        """Returns (RegLan W, exact: bool) with: pattern.<mode>(s) is not None  <=>  s in W   (if exact).
        If not exact, W is a SUPERSET-free statement is impossible, so callers must not assume s notin W."""
        items = list(self.tree)
        pre_ctx = FULL if mode == 'search' else EPS
        post_ctx = EPS if mode == 'fullmatch' else FULL
        lead, trail = [], []
        while items and items[0][0] in (sre_c.AT, sre_c.ASSERT, sre_c.ASSERT_NOT):
            lead.append(items.pop(0))
        while items and items[-1][0] in (sre_c.AT, sre_c.ASSERT, sre_c.ASSERT_NOT):
            trail.insert(0, items.pop())
        if self.has_assert(items):
            return None, False
        body = self.lang_items(items)
        first_word = self._edge_class(items, first=True)
        last_word = self._edge_class(items, first=False)
        for op, av in lead:
            if op is sre_c.AT and av is sre_c.AT_BEGINNING and not self.multiline:
                pre_ctx = z3.Intersect(pre_ctx, EPS)
            elif op is sre_c.AT and av is sre_c.AT_BEGINNING_STRING:
                pre_ctx = z3.Intersect(pre_ctx, EPS)
            elif op is sre_c.AT and av is sre_c.AT_BOUNDARY:
                if first_word == 'word':
                    pre_ctx = z3.Intersect(pre_ctx, z3.Union(EPS, z3.Concat(FULL, _NONWORD)))
                elif first_word == 'nonword':
                    pre_ctx = z3.Intersect(pre_ctx, z3.Concat(FULL, _WORD))
                else:
                    return None, False
            elif op is sre_c.ASSERT and av[0] == -1 and not self.has_assert(av[1]):
                pre_ctx = z3.Intersect(pre_ctx, z3.Concat(FULL, self.lang_items(av[1])))
            elif op is sre_c.ASSERT_NOT and av[0] == -1 and not self.has_assert(av[1]):
                pre_ctx = z3.Intersect(pre_ctx, z3.Complement(z3.Concat(FULL, self.lang_items(av[1]))))
            else:
                return None, False
        for op, av in trail:
            if op is sre_c.AT and av is sre_c.AT_END and not self.multiline:
                post_ctx = z3.Intersect(post_ctx, z3.Union(EPS, z3.Re('\n')))
            elif op is sre_c.AT and av is sre_c.AT_END_STRING:
                post_ctx = z3.Intersect(post_ctx, EPS)
            elif op is sre_c.AT and av is sre_c.AT_BOUNDARY:
                if last_word == 'word':
                    post_ctx = z3.Intersect(post_ctx, z3.Union(EPS, z3.Concat(_NONWORD, FULL)))
                elif last_word == 'nonword':
                    post_ctx = z3.Intersect(post_ctx, z3.Concat(_WORD, FULL))
                else:
                    return None, False
            elif op is sre_c.ASSERT and av[0] == 1 and not self.has_assert(av[1]):
                post_ctx = z3.Intersect(post_ctx, z3.Concat(self.lang_items(av[1]), FULL))
            elif op is sre_c.ASSERT_NOT and av[0] == 1 and not self.has_assert(av[1]):
                post_ctx = z3.Intersect(post_ctx, z3.Complement(z3.Concat(self.lang_items(av[1]), FULL)))
            else:
                return None, False
        return z3.Concat(pre_ctx, body, post_ctx), True

    def _edge_class(self, items, first):
        """'word' if every non-empty match begins (ends) with a word character, 'nonword' if never, else None.
        Decided with the solver on the real language."""
        if not items:
            return None
        try:
            body = self.lang_items(items)
        except Unsupported:
            return None
        s = z3.String('edge')
        sol = z3.Solver()
        sol.set('timeout', 5000)
        word_l = z3.Concat(_WORD, FULL) if first else z3.Concat(FULL, _WORD)
        nonword_l = z3.Concat(_NONWORD, FULL) if first else z3.Concat(FULL, _NONWORD)
        sol.push()
        sol.add(z3.InRe(s, body), z3.Not(z3.InRe(s, word_l)))
        r1 = sol.check()
        sol.pop()
        if r1 == z3.unsat:
            return 'word'
        sol.push()
        sol.add(z3.InRe(s, body), z3.Not(z3.InRe(s, nonword_l)))
        r2 = sol.check()
        sol.pop()
        if r2 == z3.unsat:
            return 'nonword'
        return None


# ------------------------------------------------------------------------------------------
# structural encoding of a match
# ------------------------------------------------------------------------------------------
class Enc:
    def __init__(self, pat, ip, whole, limit):
        self.pat = pat
        self.ip = ip
        self.cons = []
        self.groups = {}       # gid -> (flag term, text term, start term)
        self.whole = whole     # term of the (possibly truncated) subject string
        self.limit = limit

    def fresh(self, base='rx'):
        return z3.String(fresh_name(base))

    def simple(self, items):
        return not self.pat.has_group(items) and not self.pat.has_assert(items)

    def seq(self, items, left, right):
        """encode sequence; left/right: context terms. returns (term, constraint)"""
        items = list(items)
        # split into runs
        chunks = []
        run = []
        for it in items:
            if self.simple([it]):
                run.append(it)
            else:
                if run:
                    chunks.append(('run', run))
                    run = []
                chunks.append(('one', it))
        if run:
            chunks.append(('run', run))
        parts = [self.fresh('p') for _ in chunks]
        cons = []
        for i, (kind, payload) in enumerate(chunks):
            l = z3.Concat(left, *parts[:i]) if i else left
            r = z3.Concat(*parts[i + 1:], right) if i + 1 < len(parts) else right
            if kind == 'run':
                cons.append(z3.InRe(parts[i], self.pat.lang_items(payload)))
            else:
                cons.append(self.item(payload, parts[i], l, r))
        term = z3.Concat(*parts) if len(parts) > 1 else (parts[0] if parts else z3.StringVal(''))
        return term, z3.And(*cons) if cons else z3.BoolVal(True)

    def no_groups(self, items):
        """constraint: every group inside items does not participate"""
        cons = []
        for gid in self.group_ids(items):
            self.ensure_group(gid)
            cons.append(z3.Not(self.groups[gid][0]))
        return z3.And(*cons) if cons else z3.BoolVal(True)

    def group_ids(self, items):
        out = []
        for op, av in items:
            if op is sre_c.SUBPATTERN:
                if av[0] is not None:
                    out.append(av[0])
                out.extend(self.group_ids(av[3]))
            elif op is sre_c.BRANCH:
                for a in av[1]:
                    out.extend(self.group_ids(a))
            elif op in (sre_c.MAX_REPEAT, sre_c.MIN_REPEAT):
                out.extend(self.group_ids(av[2]))
        return out

    def ensure_group(self, gid):
        if gid not in self.groups:
            self.groups[gid] = (z3.Bool(fresh_name(f'g{gid}_on')), self.fresh(f'g{gid}'), z3.IntVal(-1))

    def item(self, it, part, left, right):
        op, av = it
        if op is sre_c.SUBPATTERN:
            gid, add, dele, sub = av
            if add or dele:
                raise Unsupported("inline flags")
            t, c = self.seq(sub, left, right)
            cons = [part == t, c]
            if gid is not None:
                self.ensure_group(gid)
                flag, txt, at = self.groups[gid]
                self.groups[gid] = (flag, txt, z3.Length(left))
                cons += [flag, txt == part]
            return z3.And(*cons)
        if op is sre_c.BRANCH:
            alts = av[1]
            ds = []
            for k, alt in enumerate(alts):
                t, c = self.seq(alt, left, right)
                others = [a for j, a in enumerate(alts) if j != k]
                off = [self.no_groups(o) for o in others]
                ds.append(z3.And(part == t, c, *off))
            return z3.Or(*ds)
        if op in (sre_c.MAX_REPEAT, sre_c.MIN_REPEAT):
            lo, hi, sub = av
            if self.pat.has_assert(sub) and not (lo == 0 and hi == 1):
                # assertions inside repeated bodies: ignore them in earlier iterations (over-approximation)
                pass
            zero = z3.And(part == z3.StringVal(''), self.no_groups(sub))
            if lo == 0 and hi == 1:
                t, c = self.seq(sub, left, right)
                return z3.Or(zero, z3.And(part == t, c))
            # general repeat: prefix iterations (language only) + last iteration (structural)
            body = self.pat.lang_items(sub, strict=False)
            plo = max(lo - 1, 0)
            if hi is sre_c.MAXREPEAT:
                pl = z3.Star(body) if plo == 0 else z3.Concat(z3.Loop(body, plo, plo), z3.Star(body))
            else:
                pl = z3.Loop(body, plo, hi - 1) if hi - 1 > 0 else EPS
            prefix = self.fresh('rep_pre')
            # snapshot groups before encoding last iteration to loosen optional ones
            gids = self.group_ids(sub)
            t, c = self.seq(sub, z3.Concat(left, prefix), right)
            loose = []
            multi = (hi is sre_c.MAXREPEAT) or hi > 1
            if multi and gids:
                # a group that did not take part in the last iteration may keep an earlier capture
                for gid in gids:
                    flag, txt, at = self.groups[gid]
                    flag, txt, at = self.groups[gid]
                    nflag = z3.Bool(fresh_name(f'g{gid}_on2'))
                    ntxt = self.fresh(f'g{gid}_x')
                    nat0 = z3.Int(fresh_name(f'g{gid}_at2'))
                    nat = z3.If(flag, at, nat0)
                    glang = self.group_lang(gid)
                    loose.append(z3.Implies(flag, z3.And(nflag, ntxt == txt)))
                    loose.append(z3.Implies(z3.And(z3.Not(flag), nflag),
                                            z3.And(z3.InRe(ntxt, glang), z3.Length(prefix) > 0,
                                                   nat >= z3.Length(left), nat + z3.Length(ntxt) <= z3.Length(left) + z3.Length(prefix))))
                    self.groups[gid] = (nflag, ntxt, nat)
            some = z3.And(part == z3.Concat(prefix, t), z3.InRe(prefix, pl), c, *loose)
            if lo == 0:
                zero2 = z3.And(part == z3.StringVal(''), self.no_groups(sub))
                return z3.Or(zero2, some)
            return some
        if op is sre_c.AT:
            return z3.And(part == z3.StringVal(''), self.at(av, left, right))
        if op in (sre_c.ASSERT, sre_c.ASSERT_NOT):
            direction, sub = av
            if self.pat.has_group(sub):
                raise Unsupported("capturing group inside look-around")
            lang = self.pat.lang_items(sub, strict=False)
            if direction == 1:
                m = z3.InRe(right, z3.Concat(lang, FULL))
            else:
                m = z3.InRe(left, z3.Concat(FULL, lang))
            if op is sre_c.ASSERT_NOT:
                if self.pat.has_assert(sub):
                    m = z3.BoolVal(True)      # cannot negate an over-approximation: drop
                else:
                    m = z3.Not(m)
            return z3.And(part == z3.StringVal(''), m)
        raise Unsupported(f"regex item {op}")

    def group_lang(self, gid):
        def find(items):
            for op, av in items:
                if op is sre_c.SUBPATTERN:
                    if av[0] == gid:
                        return av[3]
                    r = find(av[3])
                    if r is not None:
                        return r
                elif op is sre_c.BRANCH:
                    for a in av[1]:
                        r = find(a)
                        if r is not None:
                            return r
                elif op in (sre_c.MAX_REPEAT, sre_c.MIN_REPEAT):
                    r = find(av[2])
                    if r is not None:
                        return r
            return None
        sub = find(list(self.pat.tree))
        return self.pat.lang_items(sub, strict=False)

    def at(self, code, left, right):
        E = z3.StringVal('')
        if code is sre_c.AT_BEGINNING:
            if self.pat.multiline:
                return z3.Or(left == E, z3.SuffixOf(z3.StringVal('\n'), left))
            return left == E
        if code is sre_c.AT_BEGINNING_STRING:
            return left == E
        if code is sre_c.AT_END:
            if self.pat.multiline:
                return z3.Or(right == E, z3.PrefixOf(z3.StringVal('\n'), right))
            return z3.Or(right == E, right == z3.StringVal('\n'))
        if code is sre_c.AT_END_STRING:
            return right == E
        lw = z3.InRe(left, z3.Concat(FULL, _WORD))
        rw = z3.InRe(right, z3.Concat(_WORD, FULL))
        if code is sre_c.AT_BOUNDARY:
            return lw != rw
        if code is sre_c.AT_NON_BOUNDARY:
            return lw == rw
        raise Unsupported(f"regex anchor {code}")


class SymMatch:
    def __init__(self, pat, subject, pre, m, post, groups, subject_value):
        self.pat = pat
        self.subject = subject
        self.pre = pre
        self.m = m
        self.post = post
        self.groups_ = groups
        self.string = subject_value
        self.re = pat.compiled

    def gid(self, g):
        if isinstance(g, str):
            if g not in self.pat.groupindex:
                raise Raised(IndexError("no such group"))
            return self.pat.groupindex[g]
        if isinstance(g, int):
            if g < 0 or g > self.pat.ngroups:
                raise Raised(IndexError("no such group"))
            return g
        raise Unsupported("symbolic group index")

    def group(self, ip, g=0):
        gid = self.gid(g)
        if gid == 0:
            return wrap(self.m)
        if gid not in self.groups_:
            return None
        flag, txt, at = self.groups_[gid]
        f = z3.simplify(flag)
        if z3.is_true(f):
            return wrap(txt)
        if z3.is_false(f):
            return None
        return SOpt(z3.Not(flag), SV(txt))

    def start_(self, ip, g=0):
        gid = self.gid(g)
        if gid == 0:
            return wrap(z3.Length(self.pre))
        flag, txt, at = self.groups_[gid]
        return wrap(z3.If(flag, at, -1))

    def end_(self, ip, g=0):
        gid = self.gid(g)
        if gid == 0:
            return wrap(z3.Length(self.pre) + z3.Length(self.m))
        flag, txt, at = self.groups_[gid]
        return wrap(z3.If(flag, at + z3.Length(txt), -1))

    def method(self, ip, name, args, kwargs, node):
        if name == 'group':
            if not args:
                return self.group(ip, 0)
            if len(args) == 1:
                return self.group(ip, args[0])
            return tuple(self.group(ip, a) for a in args)
        if name == 'groups':
            return tuple(self.group(ip, i) for i in range(1, self.pat.ngroups + 1))
        if name == 'groupdict':
            return {k: self.group(ip, v) for k, v in self.pat.groupindex.items()}
        if name == 'start':
            return self.start_(ip, *args)
        if name == 'end':
            return self.end_(ip, *args)
        if name == 'span':
            return (self.start_(ip, *args), self.end_(ip, *args))
        raise Unsupported(f"match method {name}")


def sym_search(ip, pattern, subject, mode='search', pos=None, endpos=None, node=None):
    """pattern.<mode>(subject): returns None or SymMatch (forks)."""
    pat = Pat.of(pattern)
    if isinstance(subject, SOpt):
        if ip.ctx.branch(subject.n):
            raise Raised(TypeError("expected string or bytes-like object, got 'NoneType'"))
        subject = subject.v
    if subject is None or isinstance(subject, (int, list, tuple, dict)) or (isinstance(subject, SV) and not subject.is_str()):
        raise Raised(TypeError("expected string or bytes-like object"))
    if pos not in (None, 0):
        raise Unsupported("regex search with pos")
    s_full = subject.t if isinstance(subject, SV) else z3.StringVal(subject)
    if endpos is not None:
        n = z3.Length(s_full)
        e = lift(endpos)
        e = z3.If(e < 0, z3.IntVal(0), z3.If(e > n, n, e))
        s = z3.String(fresh_name('subj_trunc'))
        ip.ctx.assume(s == z3.SubString(s_full, 0, e))
    else:
        s = s_full
    W, exact = pat.search_lang(mode)
    matched = ip.ctx.choose(2, 'rx-' + mode)
    if matched == 1:
        # no match
        if exact:
            ip.ctx.assume(z3.Not(z3.InRe(s, W)))
        else:
            ip.ctx.notes.append(('rx-none-unconstrained', pat.src[:60]))
        if not ip.ctx.feasible(z3.BoolVal(True)):
            from .ctx import PathInfeasible
            raise PathInfeasible()
        return None
    if exact:
        ip.ctx.assume(z3.InRe(s, W))
    enc = Enc(pat, ip, s, None)
    E = z3.StringVal('')
    pre = E if mode in ('match', 'fullmatch') else z3.String(fresh_name('rx_pre'))
    post = E if mode == 'fullmatch' else z3.String(fresh_name('rx_post'))
    m, c = enc.seq(list(pat.tree), pre, post)
    if mode == 'fullmatch':
        mm = s
        ip.ctx.assume(s == m)
    else:
        mm = z3.String(fresh_name('rx_m'))
        ip.ctx.assume(mm == m)
        ip.ctx.assume(s == z3.Concat(pre, mm, post))
    ip.ctx.assume(c)
    # groups that exist in the pattern but were never reached
    for gid in range(1, pat.ngroups + 1):
        enc.ensure_group(gid)
    if not ip.ctx.feasible(z3.BoolVal(True)):
        from .ctx import PathInfeasible
        raise PathInfeasible()
    return SymMatch(pat, s, pre, mm, post, enc.groups, subject)


def pattern_method(ip, pattern, name, args, kwargs, node):
    if name in ('search', 'match', 'fullmatch'):
        subject = args[0] if args else kwargs.get('string')
        pos = args[1] if len(args) > 1 else kwargs.get('pos')
        endpos = args[2] if len(args) > 2 else kwargs.get('endpos')
        if not has_sym(subject) and not has_sym(pos) and not has_sym(endpos):
            return ip.native(getattr(pattern, name), args, kwargs)
        return sym_search(ip, pattern, subject, name, pos, endpos, node)
    if not has_sym(args) and not has_sym(kwargs):
        return ip.native(getattr(pattern, name), args, kwargs)
    raise Unsupported(f"pattern.{name} on symbolic text needs an abstraction contract")


def re_function(name):
    def f(ip, args, kwargs, node):
        if not has_sym(args) and not has_sym(kwargs):
            return ip.native(getattr(_re, name), args, kwargs)
        pattern = args[0]
        if has_sym(pattern):
            raise Unsupported("symbolic regex pattern")
        flags = kwargs.get('flags', 0)
        if name in ('search', 'match', 'fullmatch'):
            if len(args) > 2:
                flags = args[2]
            comp = _re.compile(pattern, flags) if not isinstance(pattern, _re.Pattern) else pattern
            return sym_search(ip, comp, args[1], name, None, None, node)
        if name == 'sub':
            return re_sub(ip, pattern, args[1], args[2], kwargs, node)
        raise Unsupported(f"re.{name} on symbolic text")
    return f


def re_sub(ip, pattern, repl, subject, kwargs, node):
    """re.sub with a symbolic subject: supported for single-character-class patterns (deleting/replacing characters)
    and literal patterns."""
    comp = pattern if isinstance(pattern, _re.Pattern) else _re.compile(pattern, kwargs.get('flags', 0))
    pat = Pat.of(comp)
    if isinstance(repl, (SV,)) or not isinstance(repl, str):
        raise Unsupported("re.sub with symbolic/callable replacement")
    s = subject.t
    items = list(pat.tree)
    # literal pattern -> str.replace
    if all(op is sre_c.LITERAL for op, av in items) and not pat.icase:
        lit = ''.join(chr(av) for op, av in items)
        from .models import z3_replace_all
        return wrap(z3_replace_all(s, z3.StringVal(lit), z3.StringVal(repl), ip))
    # single char class, deletion: result is uninterpreted with facts
    if len(items) == 1 and not pat.has_group(items) and not pat.has_assert(items):
        cls = pat.lang_items(items)
        one = z3.Solver()
        x = z3.String('x1')
        one.add(z3.InRe(x, cls), z3.Length(x) != 1)
        if one.check() == z3.unsat and repl == '':
            f = z3.Function('re_del_' + str(abs(hash(pat.src)) % 10**8), STR, STR)
            r = f(s)
            keep = z3.Star(z3.Diff(ALLCHAR, cls))
            ip.ctx.assume(z3.InRe(r, keep))
            ip.ctx.assume(z3.Implies(z3.InRe(s, keep), r == s))
            ip.ctx.assume(z3.Length(r) <= z3.Length(s))
            ip.hooks.setdefault(('re_del',), []).append((pat, s, r))
            return SV(r)
    raise Unsupported(f"re.sub({pat.src!r}) on symbolic text")


def install(models):
    for nm in ('search', 'match', 'fullmatch', 'sub', 'split', 'findall', 'finditer', 'subn'):
        models.register_model(getattr(_re, nm), re_function(nm))
