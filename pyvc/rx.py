"""Regex front end: CPython's own re._parser tree of the *real* pattern -> SMT RegLan, and a structural
encoding of match objects that over-approximates the engine's choice (any valid parse of any occurrence).

Assumption A-CLASS: \\d \\s \\w \\b and IGNORECASE are modelled with their ASCII definitions.
"""
import re as _re
try:
    import re._parser as sre_parse
    import re._constants as sre_c
except ImportError:           # python < 3.11
    import sre_parse
    import sre_constants as sre_c

import z3

from .values import SV, SOpt, SymList, fresh_name, wrap, lift, has_sym
from .ctx import Unsupported, Raised

STR = z3.StringSort()
RE = z3.ReSort(STR)
ALLCHAR = z3.AllChar(RE)
FULL = z3.Full(RE)
EPS = z3.Re('')

_WORD = z3.Union(z3.Range('a', 'z'), z3.Range('A', 'Z'), z3.Range('0', '9'), z3.Re('_'))
_NONWORD = z3.Diff(ALLCHAR, _WORD)
_DIGIT = z3.Range('0', '9')
_SPACE = z3.Union(*[z3.Re(c) for c in ' \t\n\r\x0b\x0c'])
_CATS = {
    sre_c.CATEGORY_DIGIT: _DIGIT, sre_c.CATEGORY_NOT_DIGIT: z3.Diff(ALLCHAR, _DIGIT),
    sre_c.CATEGORY_SPACE: _SPACE, sre_c.CATEGORY_NOT_SPACE: z3.Diff(ALLCHAR, _SPACE),
    sre_c.CATEGORY_WORD: _WORD, sre_c.CATEGORY_NOT_WORD: _NONWORD,
}


def _union(xs):
    xs = list(xs)
    if not xs:
        return z3.Empty(RE)
    if len(xs) == 1:
        return xs[0]
    return z3.Union(*xs)


def _concat(xs):
    xs = [x for x in xs]
    if not xs:
        return EPS
    if len(xs) == 1:
        return xs[0]
    return z3.Concat(*xs)


def _lit(code, icase):
    ch = chr(code)
    if icase and ch.lower() != ch.upper() and len(ch.lower()) == 1 and len(ch.upper()) == 1:
        return z3.Union(z3.Re(ch.lower()), z3.Re(ch.upper()))
    return z3.Re(ch)


def _range(lo, hi, icase):
    r = z3.Range(chr(lo), chr(hi))
    if icase:
        extra = []
        # case-expand the ASCII letters part of the range
        for a, b, delta in ((ord('a'), ord('z'), -32), (ord('A'), ord('Z'), 32)):
            l, h = max(lo, a), min(hi, b)
            if l <= h:
                extra.append(z3.Range(chr(l + delta), chr(h + delta)))
        if extra:
            r = z3.Union(r, *extra)
    return r


def _in_set(items, icase):
    neg = False
    parts = []
    for op, av in items:
        if op is sre_c.NEGATE:
            neg = True
        elif op is sre_c.LITERAL:
            parts.append(_lit(av, icase))
        elif op is sre_c.RANGE:
            parts.append(_range(av[0], av[1], icase))
        elif op is sre_c.CATEGORY:
            parts.append(_CATS[av])
        else:
            raise Unsupported(f"regex set item {op}")
    u = _union(parts)
    return z3.Diff(ALLCHAR, u) if neg else u


class Pat:
    """Parsed real pattern."""
    _cache = {}

    def __init__(self, pattern, flags=0):
        if isinstance(pattern, _re.Pattern):
            self.src = pattern.pattern
            self.flags = pattern.flags
            self.compiled = pattern
        else:
            self.src = pattern
            self.flags = flags
            self.compiled = _re.compile(pattern, flags)
            self.flags = self.compiled.flags
        self.tree = sre_parse.parse(self.src, self.flags & ~_re.UNICODE if False else self.flags)
        self.icase = bool(self.flags & _re.IGNORECASE)
        self.dotall = bool(self.flags & _re.DOTALL)
        self.multiline = bool(self.flags & _re.MULTILINE)
        self.groupindex = dict(self.compiled.groupindex)
        self.ngroups = self.compiled.groups

    @classmethod
    def of(cls, pattern, flags=0):
        key = (pattern.pattern, pattern.flags) if isinstance(pattern, _re.Pattern) else (pattern, flags)
        if key not in cls._cache:
            cls._cache[key] = cls(pattern, flags)
        return cls._cache[key]

    # ---- pure language (captures ignored; assertions must be absent) ----
    def lang_items(self, items, strict=True):
        return _concat([self.lang_item(op, av, strict) for op, av in items])

    def lang_item(self, op, av, strict=True):
        if op is sre_c.LITERAL:
            return _lit(av, self.icase)
        if op is sre_c.NOT_LITERAL:
            return z3.Diff(ALLCHAR, _lit(av, self.icase))
        if op is sre_c.ANY:
            return ALLCHAR if self.dotall else z3.Diff(ALLCHAR, z3.Re('\n'))
        if op is sre_c.IN:
            return _in_set(av, self.icase)
        if op is sre_c.BRANCH:
            return _union([self.lang_items(alt, strict) for alt in av[1]])
        if op is sre_c.SUBPATTERN:
            gid, add, dele, sub = av
            if add or dele:
                raise Unsupported("inline flag groups")
            return self.lang_items(sub, strict)
        if op in (sre_c.MAX_REPEAT, sre_c.MIN_REPEAT) or (hasattr(sre_c, 'POSSESSIVE_REPEAT') and op is sre_c.POSSESSIVE_REPEAT):
            lo, hi, sub = av
            r = self.lang_items(sub, strict)
            if hi is sre_c.MAXREPEAT:
                if lo == 0:
                    return z3.Star(r)
                if lo == 1:
                    return z3.Plus(r)
                return z3.Concat(z3.Loop(r, lo, lo), z3.Star(r))
            if lo == 0 and hi == 1:
                return z3.Option(r)
            return z3.Loop(r, lo, hi)
        if op in (sre_c.AT, sre_c.ASSERT, sre_c.ASSERT_NOT):
            if strict:
                raise Unsupported("assertion inside pure-language translation")
            return EPS        # over-approximation: assertion dropped
        if hasattr(sre_c, 'ATOMIC_GROUP') and op is sre_c.ATOMIC_GROUP:
            return self.lang_items(av, strict)
        raise Unsupported(f"regex construct {op}")

    def has_assert(self, items):
        for op, av in items:
            if op in (sre_c.AT, sre_c.ASSERT, sre_c.ASSERT_NOT):
                return True
            if op is sre_c.BRANCH:
                if any(self.has_assert(a) for a in av[1]):
                    return True
            elif op is sre_c.SUBPATTERN:
                if self.has_assert(av[3]):
                    return True
            elif op in (sre_c.MAX_REPEAT, sre_c.MIN_REPEAT):
                if self.has_assert(av[2]):
                    return True
        return False

    def has_group(self, items):
        for op, av in items:
            if op is sre_c.SUBPATTERN:
                if av[0] is not None or self.has_group(av[3]):
                    return True
            elif op is sre_c.BRANCH:
                if any(self.has_group(a) for a in av[1]):
                    return True
            elif op in (sre_c.MAX_REPEAT, sre_c.MIN_REPEAT):
                if self.has_group(av[2]):
                    return True
            elif op in (sre_c.ASSERT, sre_c.ASSERT_NOT):
                if self.has_group(av[1]):
                    return True
        return False

    def body_lang(self, strict=True):
        return self.lang_items(list(self.tree), strict)

    # ---- whole-string language of "search succeeds" (exact when assertions sit only at the edges) ----
    def search_lang(self, mode='search'):
        """Returns (RegLan W, exact: bool) with: pattern.<mode>(s) is not None  <=>  s in W   (if exact).
        If not exact, W is a SUPERSET-free statement is impossible, so callers must not assume s notin W."""
        items = list(self.tree)
        pre_ctx = FULL if mode == 'search' else EPS
        post_ctx = EPS if mode == 'fullmatch' else FULL
        lead, trail = [], []
        while items and items[0][0] in (sre_c.AT, sre_c.ASSERT, sre_c.ASSERT_NOT):
            lead.append(items.pop(0))
        while items and items[-1][0] in (sre_c.AT, sre_c.ASSERT, sre_c.ASSERT_NOT):
            trail.insert(0, items.pop())
        if self.has_assert(items):
            return None, False
        body = self.lang_items(items)
        first_word = self._edge_class(items, first=True)
        last_word = self._edge_class(items, first=False)
        for op, av in lead:
            if op is sre_c.AT and av is sre_c.AT_BEGINNING and not self.multiline:
                pre_ctx = z3.Intersect(pre_ctx, EPS)
            elif op is sre_c.AT and av is sre_c.AT_BEGINNING_STRING:
                pre_ctx = z3.Intersect(pre_ctx, EPS)
            elif op is sre_c.AT and av is sre_c.AT_BOUNDARY:
                if first_word == 'word':
                    pre_ctx = z3.Intersect(pre_ctx, z3.Union(EPS, z3.Concat(FULL, _NONWORD)))
                elif first_word == 'nonword':
                    pre_ctx = z3.Intersect(pre_ctx, z3.Concat(FULL, _WORD))
                else:
                    return None, False
            elif op is sre_c.ASSERT and av[0] == -1 and not self.has_assert(av[1]):
                pre_ctx = z3.Intersect(pre_ctx, z3.Concat(FULL, self.lang_items(av[1])))
            elif op is sre_c.ASSERT_NOT and av[0] == -1 and not self.has_assert(av[1]):
                pre_ctx = z3.Intersect(pre_ctx, z3.Complement(z3.Concat(FULL, self.lang_items(av[1]))))
            else:
                return None, False
        for op, av in trail:
            if op is sre_c.AT and av is sre_c.AT_END and not self.multiline:
                post_ctx = z3.Intersect(post_ctx, z3.Union(EPS, z3.Re('\n')))
            elif op is sre_c.AT and av is sre_c.AT_END_STRING:
                post_ctx = z3.Intersect(post_ctx, EPS)
            elif op is sre_c.AT and av is sre_c.AT_BOUNDARY:
                if last_word == 'word':
                    post_ctx = z3.Intersect(post_ctx, z3.Union(EPS, z3.Concat(_NONWORD, FULL)))
                elif last_word == 'nonword':
                    post_ctx = z3.Intersect(post_ctx, z3.Concat(_WORD, FULL))
                else:
                    return None, False
            elif op is sre_c.ASSERT and av[0] == 1 and not self.has_assert(av[1]):
                post_ctx = z3.Intersect(post_ctx, z3.Concat(self.lang_items(av[1]), FULL))
            elif op is sre_c.ASSERT_NOT and av[0] == 1 and not self.has_assert(av[1]):
                post_ctx = z3.Intersect(post_ctx, z3.Complement(z3.Concat(self.lang_items(av[1]), FULL)))
            else:
                return None, False
        return z3.Concat(pre_ctx, body, post_ctx), True

    def _edge_class(self, items, first):
        """'word' if every non-empty match begins (ends) with a word character, 'nonword' if never, else None.
        Decided with the solver on the real language."""
        if not items:
            return None
        try:
            body = self.lang_items(items)
        except Unsupported:
            return None
        s = z3.String('edge')
        sol = z3.Solver()
        sol.set('timeout', 5000)
        word_l = z3.Concat(_WORD, FULL) if first else z3.Concat(FULL, _WORD)
        nonword_l = z3.Concat(_NONWORD, FULL) if first else z3.Concat(FULL, _NONWORD)
        sol.push()
        sol.add(z3.InRe(s, body), z3.Not(z3.InRe(s, word_l)))
        r1 = sol.check()
        sol.pop()
        if r1 == z3.unsat:
            return 'word'
        sol.push()
        sol.add(z3.InRe(s, body), z3.Not(z3.InRe(s, nonword_l)))
        r2 = sol.check()
        sol.pop()
        if r2 == z3.unsat:
            return 'nonword'
        return None


# ------------------------------------------------------------------------------------------
# structural encoding of a match
# ------------------------------------------------------------------------------------------
class Enc:
    """Structural encoding of one match.  Alternations / optional parts / repeats that contain capturing groups or
    assertions are decided by path forks (ctx.choose), so that each path carries a plain conjunction of word equations
    and RegLan memberships and group participation is a concrete fact on the path."""

    def __init__(self, pat, ip):
        self.pat = pat
        self.ip = ip
        self.cons = []
        self.groups = {}       # gid -> (participates: bool, text term, start term)

    def fresh(self, base='rx'):
        return z3.String(fresh_name(base))

    def simple(self, items):
        return not self.pat.has_group(items) and not self.pat.has_assert(items)

    def add(self, c):
        self.cons.append(c)

    def lit_or_var(self, items):
        """a group-free, assertion-free run: a literal if it denotes exactly one string, else fresh var + membership"""
        if all(op is sre_c.LITERAL for op, av in items) and not self.pat.icase:
            return z3.StringVal(''.join(chr(av) for op, av in items))
        v = self.fresh('p')
        self.add(z3.InRe(v, self.pat.lang_items(items)))
        return v

    def seq(self, items, left, right_thunk):
        """encode a sequence. left: term of everything before; right_thunk(): term of everything after this sequence
        (resolved lazily).  returns list of part terms."""
        items = list(items)
        chunks = []
        run = []
        for it in items:
            if self.simple([it]):
                run.append(it)
            else:
                if run:
                    chunks.append(('run', run))
                    run = []
                chunks.append(('one', it))
        if run:
            chunks.append(('run', run))
        parts = []
        pending_right = []     # (index, fn(right_term)) assertions needing the right context

        def cat(ts):
            ts = [t for t in ts]
            if not ts:
                return z3.StringVal('')
            return z3.Concat(*ts) if len(ts) > 1 else ts[0]
        for i, (kind, payload) in enumerate(chunks):
            l = cat([left] + parts) if parts else left
            if kind == 'run':
                parts.append(self.lit_or_var(payload))
            else:
                idx = len(parts)
                holder = {}

                def rt(idx=idx, holder=holder):
                    # right context of chunk idx = later parts of this sequence + outer right
                    return cat(holder['later']() + [right_thunk()])
                sub_parts = self.item(payload, l, rt)
                holder['later'] = (lambda idx=idx: parts[idx + 1:])
                parts.append(cat(sub_parts) if sub_parts else z3.StringVal(''))
        return parts

    def group_ids(self, items):
        out = []
        for op, av in items:
            if op is sre_c.SUBPATTERN:
                if av[0] is not None:
                    out.append(av[0])
                out.extend(self.group_ids(av[3]))
            elif op is sre_c.BRANCH:
                for a in av[1]:
                    out.extend(self.group_ids(a))
            elif op in (sre_c.MAX_REPEAT, sre_c.MIN_REPEAT):
                out.extend(self.group_ids(av[2]))
        return out

    def off(self, items):
        for gid in self.group_ids(items):
            if gid not in self.groups:
                self.groups[gid] = (False, z3.StringVal(''), z3.IntVal(-1))

    def item(self, it, left, right_thunk):
        """returns list of part terms; may fork"""
        op, av = it
        ctx = self.ip.ctx
        if op is sre_c.SUBPATTERN:
            gid, add, dele, sub = av
            if add or dele:
                raise Unsupported("inline flags")
            parts = self.seq(sub, left, right_thunk)
            if gid is not None:
                txt = z3.Concat(*parts) if len(parts) > 1 else (parts[0] if parts else z3.StringVal(''))
                self.groups[gid] = (True, txt, z3.Length(left))
            return parts
        if op is sre_c.BRANCH:
            alts = av[1]
            k = ctx.choose(len(alts), 'rx-alt')
            for j, a in enumerate(alts):
                if j != k:
                    self.off(a)
            return self.seq(alts[k], left, right_thunk)
        if op in (sre_c.MAX_REPEAT, sre_c.MIN_REPEAT):
            lo, hi, sub = av
            if lo == 0 and hi == 1:
                if ctx.choose(2, 'rx-opt') == 1:
                    self.off(sub)
                    return []
                return self.seq(sub, left, right_thunk)
            # general repeat: earlier iterations as a language (assertions dropped: over-approximation),
            # last iteration structural
            if lo == 0 and ctx.choose(2, 'rx-rep0') == 1:
                self.off(sub)
                return []
            body = self.pat.lang_items(sub, strict=False)
            plo = max(lo - 1, 0)
            multi = (hi is sre_c.MAXREPEAT) or hi > 1
            if not multi:
                return self.seq(sub, left, right_thunk)
            if hi is sre_c.MAXREPEAT:
                pl = z3.Star(body) if plo == 0 else z3.Concat(z3.Loop(body, plo, plo), z3.Star(body))
            else:
                pl = z3.Loop(body, plo, hi - 1)
            prefix = self.fresh('rep_pre')
            self.add(z3.InRe(prefix, pl))
            gids = self.group_ids(sub)
            last = self.seq(sub, z3.Concat(left, prefix), right_thunk)
            for gid in gids:
                on, txt, at = self.groups.get(gid, (False, None, None))
                if not on:
                    # may keep a capture from an earlier iteration: nondeterministic
                    if ctx.choose(2, 'rx-oldcapture') == 1:
                        ntxt = self.fresh(f'g{gid}_old')
                        self.add(z3.InRe(ntxt, self.group_lang(gid)))
                        self.add(z3.Contains(prefix, ntxt))
                        nat = z3.Int(fresh_name(f'g{gid}_at'))
                        self.add(z3.And(nat >= z3.Length(left), nat + z3.Length(ntxt) <= z3.Length(left) + z3.Length(prefix)))
                        self.groups[gid] = (True, ntxt, nat)
            return [prefix] + last
        if op is sre_c.AT:
            code = av
            # the right context is only known once the whole match is assembled: defer
            self.deferred.append((code, left, right_thunk))
            return []
        if op in (sre_c.ASSERT, sre_c.ASSERT_NOT):
            direction, sub = av
            if self.pat.has_group(sub):
                raise Unsupported("capturing group inside look-around")
            self.deferred.append(((op, direction, sub), left, right_thunk))
            return []
        raise Unsupported(f"regex item {op}")

    deferred = None

    def resolve_deferred(self):
        for what, left, rt in self.deferred:
            right = rt()
            if isinstance(what, tuple):
                op, direction, sub = what
                lang = self.pat.lang_items(sub, strict=False)
                m = z3.InRe(right, z3.Concat(lang, FULL)) if direction == 1 else z3.InRe(left, z3.Concat(FULL, lang))
                if op is sre_c.ASSERT_NOT:
                    if self.pat.has_assert(sub):
                        continue      # cannot negate an over-approximation: drop the constraint
                    m = z3.Not(m)
                self.add(m)
            else:
                self.add(self.at(what, left, right))

    def group_lang(self, gid):
        def find(items):
            for op, av in items:
                if op is sre_c.SUBPATTERN:
                    if av[0] == gid:
                        return av[3]
                    r = find(av[3])
                    if r is not None:
                        return r
                elif op is sre_c.BRANCH:
                    for a in av[1]:
                        r = find(a)
                        if r is not None:
                            return r
                elif op in (sre_c.MAX_REPEAT, sre_c.MIN_REPEAT):
                    r = find(av[2])
                    if r is not None:
                        return r
            return None
        sub = find(list(self.pat.tree))
        return self.pat.lang_items(sub, strict=False)

    def at(self, code, left, right):
        E = z3.StringVal('')
        if code is sre_c.AT_BEGINNING:
            if self.pat.multiline:
                return z3.Or(left == E, z3.SuffixOf(z3.StringVal('\n'), left))
            return left == E
        if code is sre_c.AT_BEGINNING_STRING:
            return left == E
        if code is sre_c.AT_END:
            if self.pat.multiline:
                return z3.Or(right == E, z3.PrefixOf(z3.StringVal('\n'), right))
            return z3.Or(right == E, right == z3.StringVal('\n'))
        if code is sre_c.AT_END_STRING:
            return right == E
        lw = z3.InRe(left, z3.Concat(FULL, _WORD))
        rw = z3.InRe(right, z3.Concat(_WORD, FULL))
        if code is sre_c.AT_BOUNDARY:
            return lw != rw
        if code is sre_c.AT_NON_BOUNDARY:
            return lw == rw
        raise Unsupported(f"regex anchor {code}")


class SymMatch:
    def __init__(self, pat, subject, pre, m, post, groups, subject_value):
        self.pat = pat
        self.subject = subject
        self.pre = pre
        self.m = m
        self.post = post
        self.groups_ = groups
        self.string = subject_value
        self.re = pat.compiled

    def gid(self, g):
        if isinstance(g, str):
            if g not in self.pat.groupindex:
                raise Raised(IndexError("no such group"))
            return self.pat.groupindex[g]
        if isinstance(g, int):
            if g < 0 or g > self.pat.ngroups:
                raise Raised(IndexError("no such group"))
            return g
        raise Unsupported("symbolic group index")

    def group(self, ip, g=0):
        gid = self.gid(g)
        if gid == 0:
            return wrap(self.m)
        if gid not in self.groups_:
            return None
        on, txt, at = self.groups_[gid]
        return wrap(txt) if on else None

    def start_(self, ip, g=0):
        gid = self.gid(g)
        if gid == 0:
            return wrap(z3.Length(self.pre))
        on, txt, at = self.groups_[gid]
        return wrap(at) if on else -1

    def end_(self, ip, g=0):
        gid = self.gid(g)
        if gid == 0:
            return wrap(z3.Length(self.pre) + z3.Length(self.m))
        on, txt, at = self.groups_[gid]
        return wrap(at + z3.Length(txt)) if on else -1

    def method(self, ip, name, args, kwargs, node):
        if name == 'group':
            if not args:
                return self.group(ip, 0)
            if len(args) == 1:
                return self.group(ip, args[0])
            return tuple(self.group(ip, a) for a in args)
        if name == 'groups':
            return tuple(self.group(ip, i) for i in range(1, self.pat.ngroups + 1))
        if name == 'groupdict':
            return {k: self.group(ip, v) for k, v in self.pat.groupindex.items()}
        if name == 'start':
            return self.start_(ip, *args)
        if name == 'end':
            return self.end_(ip, *args)
        if name == 'span':
            return (self.start_(ip, *args), self.end_(ip, *args))
        raise Unsupported(f"match method {name}")


def sym_search(ip, pattern, subject, mode='search', pos=None, endpos=None, node=None):
    """pattern.<mode>(subject): returns None or SymMatch (forks)."""
    pat = Pat.of(pattern)
    if isinstance(subject, SOpt):
        if ip.ctx.branch(subject.n):
            raise Raised(TypeError("expected string or bytes-like object, got 'NoneType'"))
        subject = subject.v
    if subject is None or isinstance(subject, (int, list, tuple, dict)) or (isinstance(subject, SV) and not subject.is_str()):
        raise Raised(TypeError("expected string or bytes-like object"))
    if isinstance(pos, (SV, SOpt)) or pos not in (None, 0):
        raise Unsupported("regex search with pos")
    s_full = subject.t if isinstance(subject, SV) else z3.StringVal(subject)
    if endpos is not None:
        n = z3.Length(s_full)
        e = lift(endpos)
        e = z3.If(e < 0, z3.IntVal(0), z3.If(e > n, n, e))
        s = z3.String(fresh_name('subj_trunc'))
        ip.ctx.assume(s == z3.SubString(s_full, 0, e))
    else:
        s = s_full
    W, exact = pat.search_lang(mode)
    if exact and pat.icase and z3.is_app(s) and s.decl().name() in ('py_lower', 'py_upper'):
        # a case-insensitive language is closed under ASCII case mapping (A-CLASS)
        ip.ctx.assume(z3.InRe(s, W) == z3.InRe(s.arg(0), W))
    matched = ip.ctx.choose(2, 'rx-' + mode)
    if matched == 1:
        # no match
        if exact:
            ip.ctx.assume(z3.Not(z3.InRe(s, W)))
        else:
            ip.ctx.notes.append(('rx-none-unconstrained', pat.src[:60]))
        if not ip.ctx.feasible(z3.BoolVal(True)):
            from .ctx import PathInfeasible
            raise PathInfeasible()
        return None
    if exact:
        ip.ctx.assume(z3.InRe(s, W))
    enc = Enc(pat, ip)
    enc.deferred = []
    E = z3.StringVal('')
    pre = E if mode in ('match', 'fullmatch') else z3.String(fresh_name('rx_pre'))
    post = E if mode == 'fullmatch' else z3.String(fresh_name('rx_post'))
    parts = enc.seq(list(pat.tree), pre, lambda: post)
    m = z3.Concat(*parts) if len(parts) > 1 else (parts[0] if parts else E)
    enc.resolve_deferred()
    if mode == 'fullmatch':
        mm = s
        ip.ctx.assume(s == m)
    else:
        mm = m
        ip.ctx.assume(s == z3.Concat(pre, m, post))
    for c in enc.cons:
        ip.ctx.assume(c)
    # a subject without upper-case letters (the library lower-cases before matching) has no upper-case part either
    from .models import NOUPPER
    if ip.ctx.term_in_star(s, NOUPPER):
        for c in enc.cons:
            if z3.is_app(c) and c.decl().kind() == z3.Z3_OP_SEQ_IN_RE and z3.is_const(c.arg(0)):
                ip.ctx.assume(z3.InRe(c.arg(0), NOUPPER))
    for gid in range(1, pat.ngroups + 1):
        if gid not in enc.groups:
            enc.groups[gid] = (False, E, z3.IntVal(-1))
    if not ip.ctx.feasible_strong():
        from .ctx import PathInfeasible
        raise PathInfeasible()
    return SymMatch(pat, s, pre, mm, post, enc.groups, subject)


def pattern_method(ip, pattern, name, args, kwargs, node):
    if name in ('search', 'match', 'fullmatch'):
        subject = args[0] if args else kwargs.get('string')
        pos = args[1] if len(args) > 1 else kwargs.get('pos')
        endpos = args[2] if len(args) > 2 else kwargs.get('endpos')
        if not has_sym(subject) and not has_sym(pos) and not has_sym(endpos):
            return ip.native(getattr(pattern, name), args, kwargs)
        return sym_search(ip, pattern, subject, name, pos, endpos, node)
    if not has_sym(args) and not has_sym(kwargs):
        return ip.native(getattr(pattern, name), args, kwargs)
    if name == 'sub':
        return re_sub(ip, pattern, args[0], args[1], kwargs, node)
    raise Unsupported(f"pattern.{name} on symbolic text needs an abstraction contract")


def re_function(name):
    def f(ip, args, kwargs, node):
        if not has_sym(args) and not has_sym(kwargs):
            return ip.native(getattr(_re, name), args, kwargs)
        pattern = args[0]
        if has_sym(pattern):
            raise Unsupported("symbolic regex pattern")
        flags = kwargs.get('flags', 0)
        if name in ('search', 'match', 'fullmatch'):
            if len(args) > 2:
                flags = args[2]
            comp = _re.compile(pattern, flags) if not isinstance(pattern, _re.Pattern) else pattern
            return sym_search(ip, comp, args[1], name, None, None, node)
        if name == 'sub':
            return re_sub(ip, pattern, args[1], args[2], kwargs, node)
        if name == 'split':
            return re_split(ip, pattern, args[1], kwargs, node)
        raise Unsupported(f"re.{name} on symbolic text")
    return f


def re_sub(ip, pattern, repl, subject, kwargs, node):
    """re.sub with a symbolic subject: supported for single-character-class patterns (deleting/replacing characters)
    and literal patterns."""
    comp = pattern if isinstance(pattern, _re.Pattern) else _re.compile(pattern, kwargs.get('flags', 0))
    pat = Pat.of(comp)
    if isinstance(repl, (SV,)):
        raise Unsupported("re.sub with symbolic replacement")
    s = subject.t
    if not isinstance(repl, str):
        name = getattr(repl, 'qualname', None) or getattr(repl, '__qualname__', 'callable')
        f = z3.Function('re_subf_%d_%d' % (abs(hash(pat.src)) % 10**8, abs(hash(name)) % 10**6), STR, STR)
        ip.ctx.assumed.append('re.sub with a function replacement abstracted as a deterministic function')
        return SV(f(s))
    items = list(pat.tree)
    # literal pattern -> str.replace
    if all(op is sre_c.LITERAL for op, av in items) and not pat.icase:
        lit = ''.join(chr(av) for op, av in items)
        from .models import z3_replace_all
        return wrap(z3_replace_all(s, z3.StringVal(lit), z3.StringVal(repl), ip))
    # a character class (possibly starred) deleted from a text that provably contains none of its characters
    cls1, starred1 = _single_class(pat)
    if cls1 is not None and repl == '' and ip.ctx.term_in_star(s, z3.Star(z3.Diff(ALLCHAR, cls1))):
        return subject
    if cls1 is not None and repl == '' and all(z3.is_string_value(p) or ip.ctx.term_in_star(p, z3.Star(z3.Diff(ALLCHAR, cls1)))
                                                 for p in _flat_parts(s)):
        from .api import zstr
        from .models import concat_strs
        return concat_strs(ip, [comp.sub('', zstr(p)) if z3.is_string_value(p) else SV(p) for p in _flat_parts(s)])
    # single char class, deletion: result is uninterpreted with facts
    if len(items) == 1 and not pat.has_group(items) and not pat.has_assert(items):
        cls = pat.lang_items(items)
        one = z3.Solver()
        x = z3.String('x1')
        one.add(z3.InRe(x, cls), z3.Length(x) != 1)
        if one.check() == z3.unsat and repl == '':
            f = z3.Function('re_del_' + str(abs(hash(pat.src)) % 10**8), STR, STR)
            r = f(s)
            keep = z3.Star(z3.Diff(ALLCHAR, cls))
            ip.ctx.assume(z3.InRe(r, keep))
            ip.ctx.assume(z3.Implies(z3.InRe(s, keep), r == s))
            ip.ctx.assume(z3.Length(r) <= z3.Length(s))
            ip.hooks.setdefault(('re_del',), []).append((pat, s, r))
            return SV(r)
    # anything else: an uninterpreted function of the subject (deterministic per pattern and replacement; nothing else known)
    f = z3.Function('re_sub_%d_%d' % (abs(hash(pat.src)) % 10**8, abs(hash(repr(repl))) % 10**6), STR, STR)
    ip.ctx.assumed.append('re.sub abstracted as a deterministic function: ' + pat.src[:40].replace('\n', ' '))
    return SV(f(s))


def _flat_parts(t):
    t = z3.simplify(t)
    parts = []

    def flat(x):
        if z3.is_app(x) and x.decl().kind() == z3.Z3_OP_SEQ_CONCAT:
            for i in range(x.num_args()):
                flat(x.arg(i))
        else:
            parts.append(x)
    flat(t)
    return parts


def _single_class(pat):
    """RegLan of the character class if the pattern is one character class (optionally starred), else None"""
    items = list(pat.tree)
    if len(items) != 1:
        return None, False
    op, av = items[0]
    starred = False
    if op in (sre_c.MAX_REPEAT, sre_c.MIN_REPEAT) and len(av[2]) == 1:
        starred = True
        op, av = av[2][0]
    if op in (sre_c.IN, sre_c.LITERAL, sre_c.ANY, sre_c.NOT_LITERAL):
        return pat.lang_item(op, av), starred
    return None, False


def re_split(ip, pattern, subject, kwargs, node):
    """re.split on a single character class: structural -- literal parts are split natively, symbolic parts must be
    free of separators (proved from their language facts)"""
    from .api import zstr
    from .models import concat_strs
    comp = pattern if isinstance(pattern, _re.Pattern) else _re.compile(pattern, kwargs.get('flags', 0))
    pat = Pat.of(comp)
    cls, starred = _single_class(pat)
    if cls is None or starred or pat.has_group(list(pat.tree)):
        raise Unsupported(f"re.split({pat.src!r}) on symbolic text")
    nosep = z3.Star(z3.Diff(ALLCHAR, cls))
    pieces = [[]]
    for part in _flat_parts(subject.t):
        if z3.is_string_value(part):
            toks = comp.split(zstr(part))
            pieces[-1].append(toks[0])
            for t in toks[1:]:
                pieces.append([t])
        else:
            if not ip.ctx.term_in_star(part, nosep):
                raise Unsupported(f"re.split({pat.src!r}): a symbolic part of the text may contain a separator")
            pieces[-1].append(SV(part))
    return [concat_strs(ip, [p for p in ps if not (isinstance(p, str) and p == '')] or ['']) for ps in pieces]


def install(models):
    for nm in ('search', 'match', 'fullmatch', 'sub', 'split', 'findall', 'finditer', 'subn'):
        models.register_model(getattr(_re, nm), re_function(nm))
