"""Contract vocabulary for sidecar files under /verif/props (no repo file is annotated)."""
import re as _re
import z3

from .values import SV, SOpt, SymList, Obj, fresh_name, lift, wrap
from .ctx import Unsupported


# ------------------------------------------------------------------------------------------
# parameter shapes
# ------------------------------------------------------------------------------------------
class T:
    def make(self, ip, name):
        raise NotImplementedError

    def concretize(self, model, v):
        """value (with z3 leaves) -> python value under the model"""
        return concretize(model, v)


def _ev(model, t):
    r = model.eval(t, model_completion=True)
    if z3.is_int_value(r):
        return r.as_long()
    if z3.is_true(r):
        return True
    if z3.is_false(r):
        return False
    if z3.is_string_value(r):
        return zstr(r)
    if z3.is_seq(r):
        return seq_value(model, r)
    return str(r)


def zstr(r):
    try:
        return r.py_value()
    except Exception:
        s = r.as_string()
        return _re.sub(r'\\u\{([0-9a-fA-F]+)\}', lambda m: chr(int(m.group(1), 16)), s)


def seq_value(model, r):
    """evaluate a Seq-sorted z3 value into a python list"""
    r = z3.simplify(r)
    out = []

    def walk(t):
        if z3.is_app(t):
            k = t.decl().kind()
            if k == z3.Z3_OP_SEQ_EMPTY:
                return
            if k == z3.Z3_OP_SEQ_UNIT:
                out.append(_ev(model, t.arg(0)))
                return
            if k == z3.Z3_OP_SEQ_CONCAT:
                for i in range(t.num_args()):
                    walk(t.arg(i))
                return
        out.append(str(t))
    walk(r)
    return out


def concretize(model, v):
    if hasattr(v, 'concretize') and not isinstance(v, T):
        return v.concretize(model)
    if isinstance(v, SV):
        return _ev(model, v.t)
    if isinstance(v, SOpt):
        if _ev(model, v.n):
            return None
        return concretize(model, v.v)
    if isinstance(v, SymList):
        return seq_value(model, model.eval(v.t, model_completion=True))
    if isinstance(v, Obj):
        return {'__class__': v.cls.__name__, **{k: concretize(model, x) for k, x in v.fields.items()}}
    if isinstance(v, (list, tuple)):
        return type(v)(concretize(model, x) for x in v)
    if isinstance(v, dict):
        return {k: concretize(model, x) for k, x in v.items()}
    return v


class Int(T):
    def __init__(self, lo=None, hi=None):
        self.lo, self.hi = lo, hi

    def make(self, ip, name):
        v = SV(z3.Int(fresh_name(name)))
        if self.lo is not None:
            ip.ctx.assume(v.t >= self.lo)
        if self.hi is not None:
            ip.ctx.assume(v.t <= self.hi)
        return v


class Bool(T):
    def make(self, ip, name):
        return SV(z3.Bool(fresh_name(name)))


class Str(T):
    def __init__(self, regex=None, maxlen=None, ascii_only=False, icase=False):
        self.icase = icase
        self.regex = regex
        self.maxlen = maxlen
        self.ascii_only = ascii_only

    def make(self, ip, name):
        v = SV(z3.String(fresh_name(name)))
        if self.regex is not None:
            from .rx import Pat
            ip.ctx.assume(z3.InRe(v.t, Pat.of(_re.compile(self.regex, _re.IGNORECASE if self.icase else 0)).body_lang()))
        if self.maxlen is not None:
            ip.ctx.assume(z3.Length(v.t) <= self.maxlen)
            ip.hooks.setdefault(('strlen_bound',), {})[v.t.get_id()] = self.maxlen
        if self.ascii_only:
            ip.ctx.assume(z3.InRe(v.t, z3.Star(z3.Range('\x00', '\x7f'))))
        return v


class Cat(T):
    """string built as the concatenation of independently shaped parts"""

    def __init__(self, *parts):
        self.parts = parts

    def make(self, ip, name):
        from . import models
        vals = [p.make(ip, f"{name}_{i}") if isinstance(p, T) else p for i, p in enumerate(self.parts)]
        return models.concat_strs(ip, vals)


class Opt(T):
    def __init__(self, inner):
        self.inner = inner

    def make(self, ip, name):
        return SOpt(z3.Bool(fresh_name(name + '_isnone')), self.inner.make(ip, name))


class OneOf(T):
    """one of finitely many concrete scalars of the same type (kept symbolic)"""

    def __init__(self, *vals):
        self.vals = vals

    def make(self, ip, name):
        v0 = self.vals[0]
        if isinstance(v0, bool):
            v = SV(z3.Bool(fresh_name(name)))
        elif isinstance(v0, int):
            v = SV(z3.Int(fresh_name(name)))
        else:
            v = SV(z3.String(fresh_name(name)))
            # as a language fact (decides later tests on the value without the solver) + length bound for case mapping
            ip.ctx.assume(z3.InRe(v.t, z3.Union(*[z3.Re(x) for x in self.vals]) if len(self.vals) > 1 else z3.Re(self.vals[0])))
            ip.hooks.setdefault(('strlen_bound',), {})[v.t.get_id()] = max(len(x) for x in self.vals)
            return v
        ip.ctx.assume(z3.Or(*[v.t == lift(x) for x in self.vals]))
        return v


class Choice(T):
    """fork over alternative shapes (each explored as its own path)"""

    def __init__(self, *alts):
        self.alts = alts

    def make(self, ip, name):
        k = ip.ctx.choose(len(self.alts), 'shape-' + name)
        a = self.alts[k]
        if isinstance(a, T):
            return a.make(ip, name)
        return a


class Const(T):
    def __init__(self, v):
        self.v = v

    def make(self, ip, name):
        return self.v


class ListOf(T):
    """python list of unbounded symbolic length with scalar elements"""

    def __init__(self, elem, elem_in=None, minlen=0):
        self.elem = elem
        self.elem_in = elem_in
        self.minlen = minlen

    def make(self, ip, name):
        srt = {'int': z3.IntSort(), 'str': z3.StringSort(), 'bool': z3.BoolSort()}[self.elem]
        t = z3.Const(fresh_name(name), z3.SeqSort(srt))
        sl = SymList(t)
        if self.minlen:
            ip.ctx.assume(z3.Length(t) >= self.minlen)
        if self.elem_in is not None:
            i = z3.Int(fresh_name('li'))
            ip.ctx.assume(z3.ForAll([i], z3.Implies(z3.And(i >= 0, i < z3.Length(t)),
                                                     z3.Or(*[t[i] == lift(c) for c in self.elem_in]))))
        return sl


class FixedList(T):
    """python list of a fixed number of elements of given shapes"""

    def __init__(self, *elems):
        self.elems = elems

    def make(self, ip, name):
        return [e.make(ip, f"{name}_{i}") if isinstance(e, T) else e for i, e in enumerate(self.elems)]


class Tup(T):
    def __init__(self, *elems):
        self.elems = elems

    def make(self, ip, name):
        return tuple(e.make(ip, f"{name}_{i}") if isinstance(e, T) else e for i, e in enumerate(self.elems))


class DictOf(T):
    def __init__(self, **fields):
        self.fields = fields

    def make(self, ip, name):
        return {k: (e.make(ip, f"{name}_{k}") if isinstance(e, T) else e) for k, e in self.fields.items()}


class ObjT(T):
    """instance of a real class with the given (mangled) field shapes"""

    def __init__(self, cls, **fields):
        self.cls = cls
        self.fields = fields

    def make(self, ip, name):
        o = Obj(self.cls, tag=name)
        for k, e in self.fields.items():
            o.fields[k] = e.make(ip, f"{name}_{k}") if isinstance(e, T) else e
        return o


# ------------------------------------------------------------------------------------------
# loops, contracts, units
# ------------------------------------------------------------------------------------------
class Loop:
    def __init__(self, invariant, decreases=None, havoc=()):
        self.invariant = invariant
        self.decreases = decreases
        self.havoc = tuple(havoc)
        self.ordinal = None


class Contract:
    """callee contract used modularly at call sites: requires (asserted), ensures (assumed on a fresh result)."""

    def __init__(self, qualname, requires=None, result=None, ensures=None, modifies=(), raises=None, name=None):
        self.qualname = qualname
        self.requires = requires
        self.result = result            # T for the result shape
        self.ensures = ensures
        self.modifies = modifies
        self.raises = raises
        self.name = name or qualname

    def apply(self, ip, fn, args, kwargs):
        from .ctx import Raised
        clo = fn if not hasattr(fn, '__code__') else ip.to_closure(fn)
        bound = ip.bind_args(clo, args, kwargs)
        if self.requires is not None:
            t = call_spec(ip, self.requires, bound)
            ip.ctx.oblige(f"call.requires:{self.name}", t, kind='call')
        ip.ctx.assumed.append('callee-contract:' + self.name)
        alts = list((self.raises or {}).items())
        k = ip.ctx.choose(1 + len(alts), 'contract-outcome') if alts else 0
        if k > 0:
            ecls, cond = alts[k - 1]
            if cond is not True:
                ip.ctx.assume(call_spec(ip, cond, bound))
            if not ip.ctx.feasible(z3.BoolVal(True)):
                from .ctx import PathInfeasible
                raise PathInfeasible()
            raise Raised(ecls(f"(by contract of {self.name})"))
        res = self.result.make(ip, 'ret_' + self.qualname.split('.')[-1]) if self.result is not None else None
        if self.ensures is not None:
            env = dict(bound)
            env['result'] = res
            ip.ctx.assume(call_spec(ip, self.ensures, env))
        if not ip.ctx.feasible(z3.BoolVal(True)):
            from .ctx import PathInfeasible
            raise PathInfeasible()
        return res


def call_spec(ip, fn, env):
    """evaluate a spec lambda in spec mode; arguments by parameter name from env. Returns z3 Bool."""
    clo = ip.to_closure(fn)
    names = [p.arg for p in clo.node.args.args]
    missing = [n for n in names if n not in env]
    if missing:
        raise Unsupported(f"spec refers to unknown names {missing}")
    ip.spec_depth += 1
    try:
        r = ip.call_closure(clo, [env[n] for n in names], {})
    finally:
        ip.spec_depth -= 1
    t = ip.truth(r)
    return z3.BoolVal(t) if isinstance(t, bool) else t


class Unit:
    """One function under contract."""

    def __init__(self, name, target, params, requires=None, ensures=(), raises=None, loops=None, env=None,
                 uses=(), self_param=None, replay=None, prop=None, max_unroll=0, setup=None, kwargs_call=None,
                 check_effects=None, note='', timeout_s=None, ghost=None, hooks=None, native_setup=None, thorough_only=False, setup_params=None):
        self.name = name
        self.target = target            # 'module:Qual.name' (nested functions allowed)
        self.params = params            # ordered dict name -> T
        self.requires = requires
        self.ensures = list(ensures)    # [(label, lambda)]
        self.raises = raises or {}      # exc class -> lambda(args...) -> allowed condition  (absent = never allowed)
        self.loops = loops or {}
        self.env = env or {}            # closure variables for nested targets: name -> T | value
        self.uses = list(uses)
        self.replay = replay
        self.prop = prop
        self.max_unroll = max_unroll
        self.setup = setup
        self.check_effects = check_effects
        self.note = note
        self.timeout_s = timeout_s
        self.ghost = ghost or {}
        self.hooks = hooks or {}
        self.native_setup = native_setup
        self.thorough_only = thorough_only
        self.setup_params = setup_params


class Lemmas:
    """result of a native lemma target: list of (label, z3 formula that must be valid)"""

    def __init__(self, items):
        self.items = list(items)


def borrow(units, prop, keep=None):
    """Units of another property's sidecar file, run again under `prop`: a property that depends on a function carries that
    function's contract in its own check (a caller is checked against the callee's contract, so the callee's obligations belong to
    every property that relies on them).  Same target, same contract; only the label and the property they report under change."""
    import copy
    out = []
    for u in units:
        if keep is not None and not keep(u):
            continue
        v = copy.copy(u)
        v.prop = prop
        v.name = f'{prop}<-{u.name}'
        out.append(v)
    return out
