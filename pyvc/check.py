"""./check <Cxx> --tier quick|thorough   |   ./check replay <file>   |   ./check setup

Exit codes: 0 held (known findings are printed, not alarms); 1 violation (VIOLATION line); 2 undecided; 3 checker error.
"""
import argparse
import hashlib
import importlib
import json
import multiprocessing as mp
import os
import re
import sys
import time
import traceback

HERE = os.path.dirname(os.path.dirname(os.path.abspath(__file__)))
sys.path.insert(0, HERE)
REPO = os.environ.get('PYVC_REPO', '/repo')
sys.path.insert(0, REPO)

OUT = os.environ.get('PYVC_OUT', HERE)

TRUSTED_BASE = [
    "pyvc (this repository's AST symbolic executor and its models of Python builtins, /verif/pyvc)",
    "z3 5.1.0 (Python API) and cvc5 1.4.0 (Python API, in a worker subprocess with a hard deadline) as SMT back ends",
    "CPython re._parser (used to read the real patterns) and the translation to SMT RegLan (pyvc/rx.py)",
    "builtin contracts: list.sort is a stable permutation ordered by key (reverse=True descending, ties keep order); "
    "list.reverse; dict insertion order; str methods as modelled in pyvc/models.py",
]
STANDING_ASSUMPTIONS = [
    "A-INT: Python ints are mathematical integers (exact)",
    "A-STR: characters are code points < 0x30000; str.lower/upper exact on ASCII, uninterpreted length-preserving elsewhere",
    "A-CLASS: \\d \\s \\w \\b and IGNORECASE modelled with their ASCII definitions",
    "A-INTPARSE: int(s) exact for -?[0-9]+, rejects ASCII strings with non-literal characters, otherwise nondeterministic",
    "A-REGEX: a match object may be ANY valid parse of ANY occurrence (over-approximates the engine's leftmost/greedy choice); "
    "search() returns None exactly when the pattern's language (with edge look-arounds) has no occurrence",
    "A-TERM: termination is not proved except where a decreases clause is listed",
]


def _unit_task(args):
    pid, idx = args[0], args[1]
    work = args[2] if len(args) > 2 else None
    budget = args[3] if len(args) > 3 else None
    try:
        mod = importlib.import_module(f'props.{pid.lower()}')
        from pyvc import engine
        unit = mod.units()[idx]
        r = engine.run_unit(unit, work=work, budget=budget)
        r['unit_index'] = idx
        return ('unit', r)
    except Exception:
        return ('unit', {'unit': f'{pid}#{idx}', 'status': 'error', 'error': traceback.format_exc()[-2000:],
                         'obligations': [], 'paths': 0, 'secs': 0, 'assumed': [], 'notes': [], 'returns': 0,
                         'raises': 0, 'target': '?', 'source_hash': None, 'file': None, 'line': None,
                         'pending': [], 'unit_index': idx})


def _bounded_task(args):
    pid, idx, tier, seed = args
    t0 = time.time()
    try:
        mod = importlib.import_module(f'props.{pid.lower()}')
        b = mod.bounded(tier, seed)[idx]
        r = b['run']()
        r['name'] = b['name']
        r['secs'] = round(time.time() - t0, 2)
        return ('bounded', r)
    except Exception:
        return ('bounded', {'name': f'{pid}-bounded#{idx}', 'error': traceback.format_exc()[-2000:], 'evaluations': 0,
                            'distinct_nontrivial': 0, 'violations': [], 'samples': [], 'bound': '?', 'rule': '?',
                            'secs': round(time.time() - t0, 2)})


def _dispatch(task):
    kind = task[0]
    if kind == 'unit':
        return _unit_task(task[1:])
    return _bounded_task(task[1:])


def load_known():
    p = os.path.join(HERE, 'known_findings.json')
    if not os.path.exists(p):
        return {'findings': [], 'fixed': []}
    return json.load(open(p))


def sanitize(s):
    return re.sub(r'[^A-Za-z0-9_.-]+', '_', s)[:80]


def generic_replay(pid, unit_name, model):
    """call the real function natively on the counter-model and evaluate the contract clauses natively"""
    import contextlib
    from pyvc import engine
    mod = importlib.import_module(f'props.{pid.lower()}')
    unit = [u for u in mod.units() if u.name == unit_name][0]
    fn, _, _, _ = engine.resolve_target(unit.target)
    if isinstance(fn, (staticmethod, classmethod)):
        fn = fn.__func__
    args = {k: model.get(k) for k in unit.params}
    if any(isinstance(v, dict) and '__class__' in v for v in args.values()):
        return {'confirmed': False, 'detail': 'generic replay cannot rebuild object-shaped parameters'}
    env = dict(model)
    cm = unit.native_setup(model) if getattr(unit, 'native_setup', None) else contextlib.nullcontext()
    out = {'confirmed': False, 'input': {k: repr(v) for k, v in args.items()}}
    with cm:
        try:
            result = fn(**args)
        except Exception as e:
            allowed = None
            for ecls, cond in unit.raises.items():
                if isinstance(e, ecls):
                    allowed = cond
            ok = False
            if allowed is True:
                ok = True
            elif allowed is not None:
                names = allowed.__code__.co_varnames[:allowed.__code__.co_argcount]
                ok = bool(allowed(*[env.get(n) for n in names]))
            out.update(confirmed=not ok, detail=f"raised {type(e).__name__}: {e}" + ('' if not ok else ' (allowed by the contract)'))
            return out
        env['result'] = result
        out['observed'] = repr(result)[:300]
        for label, clause in unit.ensures:
            names = clause.__code__.co_varnames[:clause.__code__.co_argcount]
            try:
                holds = bool(clause(*[env.get(n) for n in names]))
            except Exception as e:
                holds = False
                label = f"{label} (clause raised {type(e).__name__}: {e})"
            if not holds:
                out.update(confirmed=True, detail=f"postcondition `{label}` is false on the real code")
                return out
    out['detail'] = 'real function satisfies every contract clause on this input'
    return out


def do_replay(spec, model):
    """spec = ('module:function', kwargs)  |  ('generic', {'pid':..., 'unit':...})."""
    if not spec:
        return {'confirmed': False, 'detail': 'no replay harness for this obligation'}
    modfn, kw = spec
    if modfn == 'generic':
        try:
            return generic_replay(kw['pid'], kw['unit'], model)
        except Exception:
            return {'confirmed': False, 'detail': 'generic replay error: ' + traceback.format_exc()[-1500:]}
    modname, fn = modfn.split(':')
    try:
        f = getattr(importlib.import_module(modname), fn)
        return f(model, **kw)
    except Exception:
        return {'confirmed': False, 'detail': 'replay harness error: ' + traceback.format_exc()[-1500:]}


def run_check(pid, tier, seed, jobs, select=None):
    t0 = time.time()
    wall_budget = int(os.environ.get('PYVC_WALL_S', '2400' if tier == 'quick' else '21600'))
    mod = importlib.import_module(f'props.{pid.lower()}')
    units = mod.units()
    tasks = [('unit', pid, i) for i, u in enumerate(units) if (not select or select in u.name)
             and (tier == 'thorough' or not getattr(u, 'thorough_only', False))]
    bounded = mod.bounded(tier, seed) if hasattr(mod, 'bounded') else []
    if not select:
        tasks += [('bounded', pid, i, tier, seed) for i in range(len(bounded))]
    # stage 1: every unit explores a few paths; what is left of its path tree is split into sub-tasks (stage 2) so
    # that one big function does not run on a single core
    stage1 = [(t[0], t[1], t[2], None, 6) if t[0] == 'unit' else t for t in tasks]
    with mp.get_context('fork').Pool(min(jobs, max(1, len(tasks)))) as pool:
        results = pool.map(_dispatch, stage1, chunksize=1)
        merged = {}
        order = []
        rounds = 0
        while True:
            more = []
            for k, r in results:
                if k != 'unit':
                    continue
                idx = r.get('unit_index')
                if idx not in merged:
                    merged[idx] = r
                    order.append(idx)
                else:
                    m = merged[idx]
                    m['obligations'].extend(r['obligations'])
                    for key in ('paths', 'returns', 'raises'):
                        m[key] += r[key]
                    m['secs'] = round(m['secs'] + r['secs'], 3)
                    m['assumed'] = sorted(set(m['assumed']) | set(r['assumed']))
                    if r['status'] != 'ok' and m['status'] == 'ok':
                        m['status'], m['error'] = r['status'], r['error']
                nfailed = sum(1 for o in merged[idx]['obligations'] if o['status'] == 'failed')
                if nfailed >= 8 and (r.get('pending') or []):
                    # a unit that has already failed is not explored to the end (the remaining paths can only add more failures)
                    merged[idx].setdefault('notes', []).append(f"exploration stopped after {nfailed} failed obligations")
                    r['pending'] = []
                for w in r.get('pending') or []:
                    more.append(('unit', pid, idx, [w], 40))
                r['pending'] = []
            bnd_new = [(k, r) for k, r in results if k == 'bounded']
            if rounds == 0:
                bnd_all = bnd_new
            if not more:
                break
            if time.time() - t0 > wall_budget:
                # out of wall-clock budget: what is left is undecided (exit 2), never a pass and never a violation
                left = {}
                for t_ in more:
                    left[t_[2]] = left.get(t_[2], 0) + 1
                for idx, n_ in left.items():
                    if merged[idx]['status'] == 'ok':
                        merged[idx]['status'] = 'undecided'
                        merged[idx]['error'] = f"wall budget of {wall_budget}s exceeded with {n_} unexplored path prefixes"
                break
            rounds += 1
            results = pool.map(_dispatch, more, chunksize=1)
    unit_res = [merged[i] for i in order]
    bnd_res = [r for k, r in bnd_all]
    known = load_known()
    kf = [f for f in known.get('findings', []) if f.get('property') == pid]
    lines = []
    violations = []     # (obligation/bounded name, replay path, confirmed)
    undecided = []
    errors = []
    known_hits = []
    nob = ndis = 0
    ob_rows = []
    backends = {}
    solver_secs = 0.0
    replay_specs = {u.name: (u.replay if u.replay != 'generic' else ('generic', {'pid': pid, 'unit': u.name})) for u in units}
    os.makedirs(os.path.join(OUT, 'replays'), exist_ok=True)
    for r in unit_res:
        if r['status'] == 'error':
            errors.append(f"{r['unit']}: {r['error']}")
        elif r['status'] == 'undecided':
            undecided.append(f"{r['unit']}: {r['error']}")
        if r['status'] == 'ok' and not r['obligations']:
            errors.append(f"{r['unit']}: vacuous (zero obligations generated)")
        failed_by_name = {}
        for o in r['obligations']:
            nob += 1
            solver_secs += o['secs'] or 0
            if o['status'] == 'discharged':
                ndis += 1
                backends[o['backend']] = backends.get(o['backend'], 0) + 1
            elif o['status'] == 'failed':
                failed_by_name.setdefault(o['name'], []).append(o)
            else:
                undecided.append(f"{o['name']} ({o['backend']})")
        for name, obs in failed_by_name.items():
            # replay counter-models on the real code until one is confirmed
            confirmed = None
            tried = []
            for o in obs[:4]:
                if not o['model']:
                    rep = {'confirmed': False, 'detail': 'the solver refuted the obligation without a counter-model'}
                else:
                    rep = do_replay(replay_specs.get(r['unit']), o['model'])
                tried.append({'model': o['model'], 'path': o['path'], 'backend': o['backend'], 'extra': o['extra'], 'replay': rep})
                if rep.get('confirmed'):
                    confirmed = tried[-1]
                    break
            what = confirmed or tried[0]
            hit = None
            for f in kf:
                if f.get('obligation') == name:
                    hit = f
                    break
            if hit is not None:
                known_hits.append((hit, name))
                continue
            h = hashlib.sha256(json.dumps(what['model'], sort_keys=True, default=str).encode()).hexdigest()[:10]
            path = os.path.join('replays', f"{pid}-{sanitize(name)}-{h}.json")
            json.dump({
                'property': pid, 'obligation': name, 'unit': r['unit'], 'target': r['target'], 'file': r['file'],
                'line': r['line'], 'failed_paths': len(obs), 'solver': what['backend'],
                'solver_output': 'sat (counter-model below); ' + str(what.get('extra') or ''),
                'counter_model': what['model'], 'replay_spec': replay_specs.get(r['unit']),
                'replay': what['replay'], 'confirmed_on_real_code': bool(confirmed), 'other_models_tried': len(tried) - 1,
            }, open(os.path.join(OUT, path), 'w'), indent=1, default=str)
            violations.append((name, path, bool(confirmed)))
        ob_rows.append({'unit': r['unit'], 'target': r['target'], 'file': r.get('file'), 'line': r.get('line'),
                        'source_hash': r.get('source_hash'), 'paths': r['paths'], 'returns': r['returns'],
                        'raises': r['raises'], 'obligations': len(r['obligations']),
                        'discharged': sum(1 for o in r['obligations'] if o['status'] == 'discharged'),
                        'secs': r['secs'], 'assumed': r['assumed'], 'status': r['status']})
    bevals = bdist = 0
    bsamples = []
    for b in bnd_res:
        if b.get('error'):
            errors.append(f"{b['name']}: {b['error']}")
            continue
        bevals += b['evaluations']
        bdist += b['distinct_nontrivial']
        bsamples.extend(b['samples'][:3])
        for v in b['violations']:
            hit = None
            if v.get('classes'):
                # the bounded check names the recorded defect classes an input falls in; it is covered only if every one
                # of them is a listed finding (anything else about that input is reported by the check without a class)
                hits = [f for f in kf if f.get('bounded') == b['name'] and f.get('class') in v['classes']]
                if {f.get('class') for f in hits} >= set(v['classes']):
                    for f in hits:
                        if not any(f is h for h, _ in known_hits):
                            known_hits.append((f, b['name']))
                    continue
            for f in kf:
                if f.get('bounded') == b['name'] and f.get('class') is None and finding_matches(f, v):
                    hit = f
                    break
            if hit is not None:
                known_hits.append((hit, b['name']))
                continue
            h = hashlib.sha256(json.dumps(v, sort_keys=True, default=str).encode()).hexdigest()[:10]
            path = os.path.join('replays', f"{pid}-{sanitize(b['name'])}-{h}.json")
            json.dump({'property': pid, 'bounded_check': b['name'], 'input': v.get('input'), 'observed': v.get('observed'),
                       'expected': v.get('expected'), 'replay_spec': v.get('replay_spec'), 'confirmed_on_real_code': True},
                      open(os.path.join(OUT, path), 'w'), indent=1, default=str)
            violations.append((b['name'], path, True))
    # ---- report ---------------------------------------------------------------------------------------------
    for r in ob_rows:
        lines.append(f"PROVED {r['discharged']}/{r['obligations']} {r['unit']} paths={r['paths']} {r['secs']}s"
                     + ('' if r['status'] == 'ok' else f" [{r['status']}]"))
    for b in bnd_res:
        if not b.get('error'):
            lines.append(f"BOUNDED {b['name']} bound={b['bound']} evaluations={b['evaluations']} "
                         f"violations={len(b['violations'])} {b['secs']}s")
    seen = set()
    for hit, name in known_hits:
        key = hit.get('id', hit.get('what'))
        if key in seen:
            continue
        seen.add(key)
        lines.append(f"KNOWN-FINDING: property={pid} {hit.get('what')}")
    vio_names = set()
    for name, path, confirmed in violations[:20]:
        if name in vio_names:
            continue
        vio_names.add(name)
        lines.append(f"VIOLATION property={pid} replay={path}" + ('' if confirmed else ' no-failing-input-found'))
    for u in undecided[:20]:
        lines.append(f"UNDECIDED {u}")
    for e in errors[:10]:
        lines.append(f"CHECKER-ERROR {e}")
    # a violation found (and replayed / named) stands whatever else went wrong in the same run
    code = 1 if violations else (3 if errors else (2 if undecided else 0))
    if code == 0:
        lines.append(f"OK property={pid}")
    wall = round(time.time() - t0, 2)
    # ---- evidence ---------------------------------------------------------------------------------------------
    reg = json.load(open(os.path.join(HERE, 'props', 'registry.json')))
    level = reg['claimed'].get(pid, {}).get('level', 'other')
    assumed = sorted({a for r in ob_rows for a in r['assumed']})
    extra_assumptions = list(getattr(mod, 'ASSUMPTIONS', []))
    sample_obs = []
    for r in unit_res[:3]:
        for o in r['obligations'][:2]:
            sample_obs.append({'obligation': o['name'], 'status': o['status'], 'backend': o['backend'], 'secs': o['secs']})
    coverage = {
        'obligations': nob, 'discharged': ndis,
        'checker_cmd': f"./check {pid} --tier {tier}",
        'trusted_base': TRUSTED_BASE + list(getattr(mod, 'TRUSTED', [])),
        'explanation': getattr(mod, '__doc__', '') or pid,
        'functions_under_contract': ob_rows,
        'backends': backends, 'solver_secs': round(solver_secs, 2),
        'undecided': undecided[:50], 'known_findings_hit': [h.get('what') for h, _ in known_hits][:20],
        'bounded': [{k: b.get(k) for k in ('name', 'bound', 'rule', 'evaluations', 'distinct_nontrivial', 'exhaustive', 'secs')}
                    | {'violations': len(b.get('violations', []))} for b in bnd_res],
        'evaluations': bevals, 'distinct_nontrivial': bdist,
        'rule': '; '.join(sorted({b.get('rule', '') for b in bnd_res if b.get('rule')})) or 'n/a',
        'samples': (sample_obs + bsamples)[:12] or [{'note': 'no samples'}],
        'callee_contracts_and_bounds_used': assumed,
    }
    ev = {
        'property_id': pid, 'tier': tier, 'seed': seed, 'level': level, 'coverage': coverage,
        'assumptions': STANDING_ASSUMPTIONS + extra_assumptions + [f"used: {a}" for a in assumed],
        'wall_s': wall, 'violations': len(vio_names),
    }
    os.makedirs(os.path.join(OUT, 'evidence'), exist_ok=True)
    json.dump(ev, open(os.path.join(OUT, 'evidence', f'{pid}.json'), 'w'), indent=1, default=str)
    print('\n'.join(lines))
    print(f"SUMMARY property={pid} tier={tier} obligations={nob} discharged={ndis} bounded_evaluations={bevals} "
          f"violations={len(vio_names)} undecided={len(undecided)} wall={wall}s exit={code}")
    return code


def finding_matches(f, v):
    want = f.get('input')
    if want is None:
        return True
    return json.dumps(want, sort_keys=True, default=str) == json.dumps(v.get('input'), sort_keys=True, default=str)


def replay_file(path):
    d = json.load(open(path if os.path.isabs(path) else os.path.join(HERE, path)))
    spec = d.get('replay_spec')
    if not spec:
        print("no replay harness recorded for this violation:", d.get('obligation') or d.get('bounded_check'))
        print(json.dumps(d, indent=1, default=str)[:3000])
        return 1
    model = d.get('counter_model') if 'counter_model' in d else d.get('input')
    rep = do_replay((spec[0], spec[1]), model)
    print(json.dumps(rep, indent=1, default=str)[:4000])
    if rep.get('confirmed'):
        print(f"VIOLATION property={d['property']} replay={path}")
        return 1
    print("not reproduced on the current tree")
    return 0


def selftest():
    """the verifier must accept a true postcondition and refute a false one on the same real function, with a counter-model
    that violates the false clause when run natively; a contradictory precondition must be reported as vacuous, not as a pass"""
    import copy
    from pyvc import engine
    from pyvc.api import Str
    from props import c08
    good = c08._short_unit()
    bad = copy.copy(good)
    bad.name = 'selftest/false postcondition'
    bad.ensures = [('result_keeps_the_T', lambda result: result[0] == 'T')]
    vac = copy.copy(good)
    vac.name = 'selftest/contradictory precondition'
    vac.requires = lambda twprge: len(twprge) < 3
    problems = []
    r = engine.run_unit(good)
    if r['status'] != 'ok' or not r['obligations'] or any(o['status'] != 'discharged' for o in r['obligations']):
        problems.append('a true postcondition was not discharged')
    r = engine.run_unit(bad)
    failed = [o for o in r['obligations'] if o['status'] == 'failed']
    if not failed:
        problems.append('a false postcondition was not refuted')
    else:
        from pytrs.parser.unpack.unpackers import twprge_natural_to_short
        m = failed[0]['model'] or {}
        if 'twprge' not in m or twprge_natural_to_short(m['twprge'])[0] == 'T':
            problems.append(f'the counter-model {m!r} does not violate the false clause natively')
    r = engine.run_unit(vac)
    if r['obligations']:
        problems.append('a contradictory precondition still produced obligations')
    # the executor against CPython: the same real functions on the same concrete arguments, natively and through the interpreter
    from pyvc import diffcheck
    n, bad, secs = diffcheck.run()
    print(f"differential self-test: {n} concrete calls of real pyTRS functions, natively and through pyvc: {len(bad)} differences ({secs:.0f}s)")
    for fn, args, native, got in bad[:5]:
        problems.append(f'executor differs from CPython on {fn}{args!r:.120}: native {native!r:.200} vs pyvc {got!r:.200}')
    if n == 0:
        problems.append('differential self-test ran zero samples')
    return problems


def setup():
    import z3
    import pytrs      # noqa
    from pyvc import engine   # noqa
    ok = os.path.exists('/usr/bin/cvc5')
    print(f"setup ok: z3 {z3.get_version_string()}, cvc5 cli {'present' if ok else 'MISSING'}, pytrs from {pytrs.__file__}")
    problems = selftest()
    for p_ in problems:
        print('SELFTEST FAILED:', p_)
    if not problems:
        print('selftest ok: true postcondition discharged, false one refuted with a native counterexample, contradictory requires is vacuous')
    return 3 if problems else 0


def main():
    import warnings
    warnings.simplefilter("ignore")
    if len(sys.argv) >= 2 and sys.argv[1] == 'setup':
        sys.exit(setup())
    if len(sys.argv) >= 3 and sys.argv[1] == 'replay':
        sys.exit(replay_file(sys.argv[2]))
    ap = argparse.ArgumentParser()
    ap.add_argument('prop')
    ap.add_argument('--tier', default=os.environ.get('VERIF_TIER', 'quick'))
    ap.add_argument('--unit', default=None)
    ap.add_argument('-j', type=int, default=int(os.environ.get('PYVC_JOBS', '16')))
    a = ap.parse_args()
    seed = int(os.environ.get('VERIF_SEED', '0') or 0)
    try:
        code = run_check(a.prop.upper(), a.tier, seed, a.j, a.unit)
    except Exception:
        traceback.print_exc()
        print("CHECKER-ERROR", a.prop)
        code = 3
    sys.exit(code)


if __name__ == '__main__':
    main()
