"""differential self-test of the executor against CPython on concrete arguments (see props/difftargets.py)"""
import time
import warnings


def plain(v, depth=0):
    from .values import SV, SOpt, SymList, Obj
    from . import models
    if isinstance(v, (SV, SOpt, SymList)):
        return ('<symbolic>', repr(v)[:60])
    if isinstance(v, Obj):
        return ('<obj>', v.cls.__name__, {k: plain(x, depth + 1) for k, x in sorted(v.fields.items()) if depth < 3})
    if isinstance(v, getattr(models, 'ADict', ())):
        return {plain(k): plain(x, depth + 1) for k, x in v.items()}
    if isinstance(v, tuple):
        return tuple(plain(x, depth + 1) for x in v)
    if isinstance(v, list):
        return [plain(x, depth + 1) for x in v]
    if isinstance(v, dict):
        return {plain(k): plain(x, depth + 1) for k, x in v.items()}
    return v


def run(limit=None):
    from . import engine
    from .api import Unit, Const
    from .ctx import Raised
    from props import difftargets
    import inspect
    warnings.simplefilter('ignore')
    t0 = time.time()
    S = difftargets.samples()
    if limit:
        S = S[::max(1, len(S) // limit)]
    bad = []
    for fn, args in S:
        f = getattr(difftargets, fn)
        names = list(inspect.signature(f).parameters)
        try:
            native = ('return', plain(f(*args)))
        except Exception as e:      # noqa
            native = ('raise', type(e).__name__)
        unit = Unit(name='diff/' + fn, target='props.difftargets:' + fn, params={n: Const(a) for n, a in zip(names, args)},
                    ensures=[('t', lambda: True)], raises={Exception: True})
        try:
            ctx, outcome, vals, result, exc = engine.run_path(unit, [], {})
            if outcome == 'raise' or exc is not None:
                cls = getattr(exc, 'cls', None) or type(getattr(exc, 'exc', exc))
                got = ('raise', cls.__name__)
            else:
                got = (outcome, plain(result))
            if ctx.pending:
                got = ('forked', got)
        except Exception as e:      # noqa
            got = ('executor-error', f'{type(e).__name__}: {e}'[:200])
        if got != native:
            bad.append((fn, args, native, got))
    return len(S), bad, time.time() - t0


if __name__ == '__main__':
    n, bad, secs = run()
    print(f'{n} samples, {len(bad)} differences, {secs:.1f}s')
    for b in bad[:20]:
        print('DIFF', b[0], repr(b[1])[:120])
        print('   native:', repr(b[2])[:300])
        print('   pyvc  :', repr(b[3])[:300])
