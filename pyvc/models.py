"""Symbolic models of operators, builtins and methods (the trusted base of pyvc)."""
import ast
import builtins as _bi
import operator
import re as _re
import types

import z3

from .values import (SV, SOpt, SymList, Obj, Closure, BoundMethod, Uninterp, has_sym, lift, wrap,
                     fresh_name, mk_int, mk_bool, mk_str, concrete_of)
from .ctx import Unsupported, PathEnd, PathInfeasible, Raised

STR = z3.StringSort()
DIGIT = z3.Range('0', '9')
DIGITS1 = z3.Plus(DIGIT)
UPPER = z3.Range('A', 'Z')
LOWER = z3.Range('a', 'z')

_OPS = {
    ast.Add: operator.add, ast.Sub: operator.sub, ast.Mult: operator.mul, ast.FloorDiv: operator.floordiv,
    ast.Mod: operator.mod, ast.Div: operator.truediv, ast.Pow: operator.pow, ast.BitOr: operator.or_,
    ast.BitAnd: operator.and_, ast.BitXor: operator.xor, ast.LShift: operator.lshift, ast.RShift: operator.rshift,
}
_CMP = {
    ast.Lt: operator.lt, ast.LtE: operator.le, ast.Gt: operator.gt, ast.GtE: operator.ge,
}


def S(v):
    """string term of value"""
    if isinstance(v, SV):
        return v.t
    return z3.StringVal(v)


def is_strval(v):
    return isinstance(v, str) or (isinstance(v, SV) and v.is_str())


def is_intval(v):
    return (isinstance(v, int) and not isinstance(v, bool)) or (isinstance(v, SV) and v.is_int())


def is_boolval(v):
    return isinstance(v, bool) or (isinstance(v, SV) and v.is_bool())


def shallow_sym(v):
    return isinstance(v, (SV, SOpt, SymList, Obj, Closure, BoundMethod, Uninterp))


# ------------------------------------------------------------------------------------------
# sequences
# ------------------------------------------------------------------------------------------
def elem_sort(sl):
    return sl.t.sort().basis()


def seq_wrap_elem(sl, term):
    if sl.elem is not None:
        return sl.elem(term)
    return wrap(term)


def seq_get(ip, sl, i):
    it = lift(i)
    return seq_wrap_elem(sl, sl.t[it])


def to_seq_term(ip, v, sort=None):
    """python list/tuple of scalars or SymList -> z3 Seq term"""
    if isinstance(v, SymList):
        return v.t
    if isinstance(v, (list, tuple)):
        if not v:
            if sort is None:
                raise Unsupported("empty list with unknown element sort")
            return z3.Empty(sort)
        units = [z3.Unit(lift(x)) for x in v]
        return units[0] if len(units) == 1 else z3.Concat(*units)
    raise Unsupported(f"to_seq_term {type(v).__name__}")


def norm_index(i, n):
    """python index normalisation (negative from the end); i, n are z3 int terms"""
    return z3.If(i < 0, i + n, i)


def clamp(i, n):
    j = z3.If(i < 0, i + n, i)
    return z3.If(j < 0, z3.IntVal(0), z3.If(j > n, n, j))


def slice_bounds(sl, n):
    """python slice (step None/1) -> (start, length) z3 terms for a sequence of length n"""
    lo = z3.IntVal(0) if sl.start is None else clamp(lift(sl.start), n)
    hi = n if sl.stop is None else clamp(lift(sl.stop), n)
    ln = z3.If(hi > lo, hi - lo, z3.IntVal(0))
    return z3.simplify(lo), z3.simplify(ln)


# ------------------------------------------------------------------------------------------
# int <-> str
# ------------------------------------------------------------------------------------------
def int_to_str(ip, n):
    """str(n) for int term n: exact via str.from_int, plus helper facts (theorems)."""
    t = lift(n)
    r = z3.If(t >= 0, z3.IntToStr(t), z3.Concat(z3.StringVal('-'), z3.IntToStr(-t)))
    r = z3.simplify(r)
    c = concrete_of(r)
    if c is not None:
        return c[0]
    memo = ip.hooks.setdefault(('str_of_int',), {})
    if t.get_id() in memo:
        return memo[t.get_id()]
    s = z3.String(fresh_name('str_of_int'))
    memo[t.get_id()] = SV(s)
    ip.ctx.assume(s == r)
    # helper lemmas about decimal rendering (theorems of str.from_int)
    L = z3.Length(s)
    ip.ctx.assume(z3.Implies(z3.And(t >= 0, t <= 9), L == 1))
    ip.ctx.assume(z3.Implies(z3.And(t >= 10, t <= 99), L == 2))
    ip.ctx.assume(z3.Implies(z3.And(t >= 100, t <= 999), L == 3))
    ip.ctx.assume(z3.Implies(t >= 1000, L >= 4))
    # language fact (decides later tests on the text without the solver): tight when the value range is known
    if not ip.ctx.feasible(z3.Not(z3.And(t >= 0, t <= 999))):
        ip.ctx.assume(z3.InRe(s, z3.Union(z3.Re('0'), z3.Concat(z3.Range('1', '9'), z3.Loop(DIGIT, 0, 2)))))
    else:
        ip.ctx.assume(z3.InRe(s, INT_OK))
    ip.ctx.assume(z3.Implies(t >= 0, z3.InRe(s, DIGITS1)))
    ip.ctx.assume(z3.Implies(t >= 0, z3.StrToInt(s) == t))
    ip.ctx.assume(z3.Implies(t < 0, z3.StrToInt(z3.SubString(s, 1, z3.Length(s) - 1)) == -t))
    ip.ctx.assume(z3.Implies(t < 0, z3.And(L >= 2, z3.SubString(s, 0, 1) == z3.StringVal('-'))))
    ip.ctx.assume(z3.Implies(t >= 10, z3.SubString(s, 0, 1) != z3.StringVal('0')))
    return SV(s)


INT_OK = z3.Union(DIGITS1, z3.Concat(z3.Re('-'), DIGITS1))
_WS = z3.Union(*[z3.Re(c) for c in ' \t\n\r\x0b\x0c\x1c\x1d\x1e\x1f'])
# every ASCII string python's int() accepts: optional blanks, optional sign, digit groups separated by single underscores
INT_ASCII_LITERAL = z3.Concat(z3.Star(_WS), z3.Option(z3.Union(z3.Re('+'), z3.Re('-'))), DIGITS1,
                              z3.Star(z3.Concat(z3.Re('_'), DIGITS1)), z3.Star(_WS))
_ASCII = z3.Star(z3.Range('\x00', '\x7f'))
INT_BAD = z3.Intersect(_ASCII, z3.Complement(INT_ASCII_LITERAL))     # ASCII strings int() certainly rejects


def str_to_int_facts(ip, st, res):
    L = z3.Length(st)
    ip.ctx.assume(res >= 0)
    ip.ctx.assume(z3.Implies(L <= 1, res <= 9))
    ip.ctx.assume(z3.Implies(L <= 2, res <= 99))
    ip.ctx.assume(z3.Implies(L <= 3, res <= 999))


def str_to_int_facts_guarded(ip, st, res):
    L = z3.Length(st)
    d = z3.InRe(st, DIGITS1)
    ip.ctx.assume(z3.Implies(d, z3.And(res >= 0, z3.Implies(L <= 1, res <= 9), z3.Implies(L <= 2, res <= 99),
                                       z3.Implies(L <= 3, res <= 999))))


def int_of_digits(ip, st):
    """int(st) for a term known to be a digit string: one shared integer variable per string term"""
    memo = ip.hooks.setdefault(('int_of_str',), {})
    key = st.get_id()
    if key not in memo:
        r = z3.Int(fresh_name('int_of_str'))
        ip.ctx.assume(r == z3.StrToInt(st))
        str_to_int_facts(ip, st, r)
        memo[key] = SV(r)
    return memo[key]


def py_int_of_str(ip, s, node):
    """int(s) for a symbolic string s."""
    st = s.t
    pure = z3.InRe(st, DIGITS1)
    if ip.ctx.branch(pure):
        return int_of_digits(ip, st)
    neg = z3.InRe(st, z3.Concat(z3.Re('-'), DIGITS1))
    if ip.ctx.branch(neg):
        rest = z3.SubString(st, 1, z3.Length(st) - 1)
        r = z3.Int(fresh_name('int_of_str'))
        ip.ctx.assume(r == -z3.StrToInt(rest))
        return SV(r)
    if ip.ctx.branch(z3.InRe(st, INT_BAD)):
        raise Raised(ValueError("invalid literal for int()"))
    # exotic literal: may parse (any int) or raise
    k = ip.ctx.choose(2, 'int-exotic')
    if k == 0:
        raise Raised(ValueError("invalid literal for int()"))
    return mk_int('int_exotic')


# ------------------------------------------------------------------------------------------
# equality / comparison
# ------------------------------------------------------------------------------------------
def eq(ip, a, b):
    """python == : returns bool or z3 Bool term"""
    if not shallow_sym(a) and not shallow_sym(b) and not has_sym(a) and not has_sym(b):
        try:
            return bool(a == b)
        except Exception as e:
            raise Raised(e)
    if isinstance(a, SOpt) or isinstance(b, SOpt):
        if isinstance(b, SOpt) and not isinstance(a, SOpt):
            a, b = b, a
        if b is None:
            return a.n
        if isinstance(b, SOpt):
            inner = eq(ip, a.v, b.v)
            it = inner if not isinstance(inner, bool) else z3.BoolVal(inner)
            return z3.simplify(z3.Or(z3.And(a.n, b.n), z3.And(z3.Not(a.n), z3.Not(b.n), it)))
        inner = eq(ip, a.v, b)
        if isinstance(inner, bool):
            return z3.simplify(z3.And(z3.Not(a.n), z3.BoolVal(inner)))
        return z3.simplify(z3.And(z3.Not(a.n), inner))
    if a is None or b is None:
        if a is None and b is None:
            return True
        return False
    if isinstance(a, SV) or isinstance(b, SV):
        if isinstance(a, Obj) or isinstance(b, Obj):
            return False
        try:
            ta, tb = term_of(ip, a), term_of(ip, b)
        except TypeError:
            return False
        if ta.sort() != tb.sort():
            # bool vs int comparisons (True == 1) are not used by the code base
            return False
        return z3.simplify(ta == tb)
    if isinstance(a, SymList) or isinstance(b, SymList):
        if isinstance(a, (SymList, list)) and isinstance(b, (SymList, list)):
            srt = (a if isinstance(a, SymList) else b).t.sort()
            ta = to_seq_term(ip, a, srt)
            tb = to_seq_term(ip, b, srt)
            return z3.simplify(ta == tb)
        return False
    if isinstance(a, (list, tuple)) and isinstance(b, (list, tuple)):
        if type(a) is not type(b) and not (isinstance(a, list) and isinstance(b, list)) and \
                not (isinstance(a, tuple) and isinstance(b, tuple)):
            return False
        if len(a) != len(b):
            return False
        terms = []
        for x, y in zip(a, b):
            r = eq(ip, x, y)
            if isinstance(r, bool):
                if not r:
                    return False
            else:
                terms.append(r)
        if not terms:
            return True
        return z3.simplify(z3.And(*terms))
    if isinstance(a, dict) and isinstance(b, dict):
        if set(a.keys()) != set(b.keys()):
            return False
        return eq(ip, [a[k] for k in a], [b[k] for k in a])
    if isinstance(a, Obj) or isinstance(b, Obj):
        o, other = (a, b) if isinstance(a, Obj) else (b, a)
        m = ip.class_lookup(o.cls, '__eq__')
        if m is not None:
            r = ip.call(m, [o, other], {})
            t = ip.truth(r)
            return t
        return a is b
    if isinstance(a, (Closure, BoundMethod)) or isinstance(b, (Closure, BoundMethod)):
        return a is b
    if isinstance(a, (list, tuple, dict)) or isinstance(b, (list, tuple, dict)):
        return False
    return False


def term_of(ip, v):
    if isinstance(v, SV):
        return v.t
    if isinstance(v, (bool, int, str)):
        return lift(v)
    raise TypeError("no term")


def compare(ip, op, a, b, node):
    if isinstance(op, ast.Eq):
        return eq(ip, a, b)
    if isinstance(op, ast.NotEq):
        r = eq(ip, a, b)
        return (not r) if isinstance(r, bool) else z3.simplify(z3.Not(r))
    if isinstance(op, (ast.Is, ast.IsNot)):
        r = is_(ip, a, b)
        if isinstance(op, ast.IsNot):
            return (not r) if isinstance(r, bool) else z3.simplify(z3.Not(r))
        return r
    if isinstance(op, (ast.In, ast.NotIn)):
        r = contains(ip, b, a, node)
        if isinstance(op, ast.NotIn):
            return (not r) if isinstance(r, bool) else z3.simplify(z3.Not(r))
        return r
    f = _CMP[type(op)]
    if not has_sym(a) and not has_sym(b):
        try:
            return bool(f(a, b))
        except Exception as e:
            raise Raised(e)
    a = unopt(ip, a, node)
    b = unopt(ip, b, node)
    if a is None or b is None:
        raise Raised(TypeError("'<' not supported between instances of 'NoneType' and ..."))
    if (is_intval(a) and is_intval(b)) or (is_strval(a) and is_strval(b)):
        return z3.simplify(f(lift(a), lift(b)))
    if isinstance(a, (list, tuple)) and isinstance(b, (list, tuple)) and len(a) == len(b):
        # lexicographic comparison of equal-length tuples
        res = None
        strict = f in (operator.lt, operator.gt)
        base = operator.lt if f in (operator.lt, operator.le) else operator.gt
        acc = z3.BoolVal(not strict)
        for x, y in reversed(list(zip(a, b))):
            lt = compare(ip, ast.Lt() if base is operator.lt else ast.Gt(), x, y, node)
            e = eq(ip, x, y)
            lt = lt if not isinstance(lt, bool) else z3.BoolVal(lt)
            e = e if not isinstance(e, bool) else z3.BoolVal(e)
            acc = z3.Or(lt, z3.And(e, acc))
        return z3.simplify(acc)
    raise Unsupported(f"ordering comparison of {type(a).__name__} and {type(b).__name__} (line {getattr(node, 'lineno', '?')})")


def unopt(ip, v, node, exc=TypeError):
    """Use of a maybe-None value where None raises."""
    if isinstance(v, SOpt):
        if ip.ctx.branch(v.n):
            return None
        return v.v
    return v


def is_(ip, a, b):
    if isinstance(a, SOpt) and b is None:
        return a.n
    if isinstance(b, SOpt) and a is None:
        return b.n
    if a is None or b is None:
        return a is None and b is None
    if isinstance(a, SV) and a.is_bool() and isinstance(b, bool):
        return a.t if b else z3.Not(a.t)
    if isinstance(b, SV) and b.is_bool() and isinstance(a, bool):
        return b.t if a else z3.Not(b.t)
    if isinstance(a, (SV, SOpt)) or isinstance(b, (SV, SOpt)):
        if isinstance(a, SV) and isinstance(b, SV) and a.is_bool() and b.is_bool():
            return z3.simplify(a.t == b.t)
        raise Unsupported("identity comparison of symbolic scalars")
    return a is b


def contains(ip, container, x, node):
    if not has_sym(container) and not has_sym(x):
        try:
            return x in container
        except Exception as e:
            raise Raised(e)
    if isinstance(container, SOpt):
        container = unopt(ip, container, node)
        if container is None:
            raise Raised(TypeError("argument of type 'NoneType' is not iterable"))
    if isinstance(container, (tuple, list, set, frozenset, dict)):
        items = list(container.keys()) if isinstance(container, dict) else list(container)
        terms = []
        for c in items:
            r = eq(ip, x, c)
            if isinstance(r, bool):
                if r:
                    return True
            else:
                terms.append(r)
        if not terms:
            return False
        return z3.simplify(z3.Or(*terms))
    if is_strval(container):
        xx = unopt(ip, x, node)
        if not is_strval(xx):
            raise Raised(TypeError("'in <string>' requires string as left operand"))
        return z3.simplify(z3.Contains(S(container), S(xx)))
    if isinstance(container, SymList):
        if isinstance(x, SOpt):
            raise Unsupported("membership of optional in symbolic list")
        return z3.simplify(z3.Contains(container.t, z3.Unit(lift(x))))
    if isinstance(container, Obj):
        m = ip.class_lookup(container.cls, '__contains__')
        if m is not None:
            return ip.truth(ip.call(m, [container, x], {}))
    raise Unsupported(f"'in' on {type(container).__name__}")


# ------------------------------------------------------------------------------------------
# binary operators
# ------------------------------------------------------------------------------------------
def binop(ip, op, a, b, node, inplace=False):
    f = _OPS.get(type(op))
    if f is None:
        raise Unsupported(f"operator {type(op).__name__}")
    if not shallow_sym(a) and not shallow_sym(b):
        # containers with symbolic leaves: + and * work natively
        if isinstance(a, (list, tuple)) and (isinstance(b, (list, tuple, int))):
            if inplace and isinstance(a, list) and isinstance(op, ast.Add):
                a.extend(b)
                return a
            return ip.native(f, [a, b], {})
        if not has_sym(a) and not has_sym(b):
            return ip.native(f, [a, b], {})
    a = unopt(ip, a, node)
    b = unopt(ip, b, node)
    if a is None or b is None:
        raise Raised(TypeError(f"unsupported operand type(s) for {type(op).__name__}: 'NoneType'"))
    if is_intval(a) and is_intval(b):
        ta, tb = lift(a), lift(b)
        if isinstance(op, ast.Add):
            return wrap(ta + tb)
        if isinstance(op, ast.Sub):
            return wrap(ta - tb)
        if isinstance(op, ast.Mult):
            return wrap(ta * tb)
        if isinstance(op, (ast.FloorDiv, ast.Mod)):
            ip.safe('division by zero', tb != 0, ZeroDivisionError, node)
            q = z3.If(tb > 0, ta / tb, (-ta) / (-tb))
            if isinstance(op, ast.FloorDiv):
                return wrap(q)
            return wrap(ta - tb * q)
        raise Unsupported(f"int operator {type(op).__name__}")
    if is_strval(a) and is_strval(b) and isinstance(op, ast.Add):
        return wrap(z3.Concat(S(a), S(b)))
    if is_strval(a) and isinstance(b, int) and isinstance(op, ast.Mult):
        if b <= 0:
            return ''
        return wrap(z3.Concat(*[S(a)] * b)) if b > 1 else a
    if is_strval(a) and is_intval(b) and isinstance(op, ast.Mult) and isinstance(a, str) and len(a) == 1:
        # 'c' * n  for symbolic n: a fresh string of n copies
        r = z3.String(fresh_name('rep'))
        n = lift(b)
        ip.ctx.assume(z3.Length(r) == z3.If(n > 0, n, 0))
        ip.ctx.assume(z3.InRe(r, z3.Star(z3.Re(a))))
        return SV(r)
    if isinstance(a, SymList) or isinstance(b, SymList):
        if isinstance(op, ast.Add) and isinstance(a, (SymList, list)) and isinstance(b, (SymList, list)):
            sl = a if isinstance(a, SymList) else b
            t = z3.Concat(to_seq_term(ip, a, sl.t.sort()), to_seq_term(ip, b, sl.t.sort()))
            if inplace and isinstance(a, SymList):
                a.t = z3.simplify(t)
                return a
            return SymList(z3.simplify(t), sl.elem)
        raise Unsupported("operator on symbolic list")
    if isinstance(a, Obj):
        nm = {ast.Add: '__add__', ast.Sub: '__sub__', ast.Mult: '__mul__'}.get(type(op))
        if inplace:
            inm = {ast.Add: '__iadd__'}.get(type(op))
            m = ip.class_lookup(a.cls, inm) if inm else None
            if m is not None:
                return ip.call(m, [a, b], {})
        m = ip.class_lookup(a.cls, nm) if nm else None
        if m is not None:
            return ip.call(m, [a, b], {})
    if isinstance(a, (list, tuple)) and isinstance(b, (list, tuple)):
        return ip.native(f, [a, b], {})
    raise Unsupported(f"binop {type(op).__name__} on {type(a).__name__}, {type(b).__name__} (line {getattr(node, 'lineno', '?')})")


# ------------------------------------------------------------------------------------------
# subscripts
# ------------------------------------------------------------------------------------------
def concretize(ip, v, candidates, node, exc=KeyError):
    """Case-split a symbolic scalar over a finite candidate set."""
    for c in candidates:
        r = eq(ip, v, c)
        if isinstance(r, bool):
            if r:
                return c
            continue
        if ip.ctx.branch(r):
            return c
    raise Raised(exc(repr(v)))


def subscript(ip, obj, idx, node):
    if isinstance(obj, SOpt):
        obj = unopt(ip, obj, node)
        if obj is None:
            raise Raised(TypeError("'NoneType' object is not subscriptable"))
    if isinstance(obj, Obj):
        m = ip.class_lookup(obj.cls, '__getitem__')
        if m is None:
            raise Raised(TypeError(f"{obj.cls.__name__} object is not subscriptable"))
        return ip.call(m, [obj, idx], {})
    from .rx import SymMatch
    if isinstance(obj, SymMatch):
        return obj.group(ip, idx)
    if isinstance(obj, SV) and obj.is_str():
        n = z3.Length(obj.t)
        st = structural_index(ip, obj.t, idx)
        if st is not None:
            return wrap(st)
        if isinstance(idx, slice):
            if idx.step not in (None, 1):
                raise Unsupported("string slice with step")
            lo, ln = slice_bounds(idx, n)
            return wrap(z3.SubString(obj.t, lo, ln))
        i = unopt(ip, idx, node)
        it = lift(i)
        ip.safe('string index out of range', z3.And(it >= -n, it < n), IndexError, node)
        ch = wrap(z3.SubString(obj.t, norm_index(it, n), 1))
        if isinstance(ch, SV):
            ip.hooks.setdefault(('strlen_bound',), {})[ch.t.get_id()] = 1
        return ch
    if isinstance(obj, SymList):
        n = z3.Length(obj.t)
        if isinstance(idx, slice):
            if idx.step not in (None, 1):
                raise Unsupported("list slice with step")
            lo, ln = slice_bounds(idx, n)
            return SymList(z3.simplify(z3.Extract(obj.t, lo, ln)), obj.elem)
        it = lift(unopt(ip, idx, node))
        ip.safe('list index out of range', z3.And(it >= -n, it < n), IndexError, node)
        return seq_wrap_elem(obj, z3.simplify(obj.t[norm_index(it, n)]))
    if isinstance(obj, str) and has_sym(idx):
        return subscript(ip, SV(z3.StringVal(obj)), idx, node)
    if isinstance(obj, (list, tuple)):
        if isinstance(idx, slice):
            if has_sym([idx.start, idx.stop, idx.step]):
                raise Unsupported("native list sliced with symbolic bounds")
            return obj[idx]
        if isinstance(idx, (SV, SOpt)):
            i = unopt(ip, idx, node)
            n = len(obj)
            ip.safe('list index out of range', z3.And(i.t >= -n, i.t < n), IndexError, node)
            k = concretize(ip, i, list(range(n)) + list(range(-n, 0)), node, IndexError)
            return obj[k]
        try:
            return obj[idx]
        except Exception as e:
            raise Raised(e)
    if isinstance(obj, dict):
        if isinstance(idx, (SV, SOpt)):
            if isinstance(idx, SV) and obj and all(isinstance(v, (Closure, BoundMethod, types.FunctionType)) for v in obj.values()):
                # table of functions indexed by a symbolic key: keep the choice symbolic until the function is called
                ok = z3.Or(*[idx.t == lift(k) for k in obj.keys() if isinstance(k, (str, int))])
                ip.safe('key error', ok, KeyError, node)
                return LazyPick(obj, idx)
            k = concretize(ip, idx, list(obj.keys()), node, KeyError)
            return obj[k]
        try:
            return obj[idx]
        except Exception as e:
            raise Raised(e)
    if not has_sym(idx):
        try:
            return obj[idx]
        except Exception as e:
            raise Raised(e)
    raise Unsupported(f"subscript on {type(obj).__name__}")


def structural_index(ip, t, idx):
    """s[-1], s[:-k], s[-k:] on a concatenation whose trailing parts have a fixed known length: pick the parts"""
    t = z3.simplify(t)
    if not (z3.is_app(t) and t.decl().kind() == z3.Z3_OP_SEQ_CONCAT):
        return None
    parts = []

    def flat(x):
        if z3.is_app(x) and x.decl().kind() == z3.Z3_OP_SEQ_CONCAT:
            for i in range(x.num_args()):
                flat(x.arg(i))
        else:
            parts.append(x)
    flat(t)
    if isinstance(idx, int) and idx == -1:
        if ip.ctx.fixed_len(parts[-1]) == 1:
            return parts[-1]
        return None
    if isinstance(idx, slice) and idx.step in (None, 1):
        k = None
        if idx.start is None and isinstance(idx.stop, int) and idx.stop < 0:
            k, head = -idx.stop, True
        elif idx.stop is None and isinstance(idx.start, int) and idx.start < 0:
            k, head = -idx.start, False
        if k is None:
            return None
        tail = []
        acc = 0
        rest = list(parts)
        while rest and acc < k:
            last = rest[-1]
            if z3.is_string_value(last):
                from .api import zstr
                lit = zstr(last)
                if len(lit) > k - acc:
                    # cut inside a literal part
                    cutn = k - acc
                    rest[-1] = z3.StringVal(lit[:-cutn])
                    tail.insert(0, z3.StringVal(lit[-cutn:]))
                    acc = k
                    break
            ln = ip.ctx.fixed_len(last)
            if ln is None:
                return None
            acc += ln
            tail.insert(0, rest.pop())
        if acc != k or not rest:
            return None
        sel = rest if head else tail
        return z3.Concat(*sel) if len(sel) > 1 else sel[0]
    return None


def store_subscript(ip, obj, idx, val, node):
    if isinstance(obj, SymList):
        n = z3.Length(obj.t)
        it = lift(unopt(ip, idx, node))
        ip.safe('list assignment index out of range', z3.And(it >= -n, it < n), IndexError, node)
        j = norm_index(it, n)
        obj.t = z3.simplify(z3.Concat(z3.Extract(obj.t, 0, j), z3.Unit(lift(val)), z3.Extract(obj.t, j + 1, n - j - 1)))
        return
    if isinstance(obj, Obj):
        m = ip.class_lookup(obj.cls, '__setitem__')
        if m is None:
            raise Raised(TypeError("object does not support item assignment"))
        ip.call(m, [obj, idx, val], {})
        return
    if isinstance(obj, (list, dict)):
        if has_sym(idx):
            if isinstance(obj, list):
                n = len(obj)
                i = unopt(ip, idx, node)
                ip.safe('list assignment index out of range', z3.And(i.t >= -n, i.t < n), IndexError, node)
                k = concretize(ip, i, list(range(n)) + list(range(-n, 0)), node, IndexError)
                obj[k] = val
                return
            k = None
            for c in obj.keys():
                r = eq(ip, idx, c)
                if (isinstance(r, bool) and r) or (not isinstance(r, bool) and ip.ctx.branch(r)):
                    k = c
                    break
            if k is None:
                raise Unsupported("dict store with symbolic new key")
            obj[k] = val
            return
        try:
            obj[idx] = val
        except Exception as e:
            raise Raised(e)
        return
    raise Unsupported(f"subscript store on {type(obj).__name__}")


# ------------------------------------------------------------------------------------------
# strings
# ------------------------------------------------------------------------------------------
def py_str(ip, x, node=None):
    if isinstance(x, str):
        return x
    if isinstance(x, SV):
        if x.is_str():
            return x
        if x.is_int():
            return int_to_str(ip, x)
        if x.is_bool():
            return 'True' if ip.ctx.branch(x.t) else 'False'     # fork: keeps the text structure concrete
    if isinstance(x, SOpt):
        if ip.ctx.branch(x.n):
            return 'None'
        return py_str(ip, x.v, node)
    if isinstance(x, Obj):
        m = ip.class_lookup(x.cls, '__str__') or ip.class_lookup(x.cls, '__repr__')
        if m is not None:
            return ip.call(m, [x], {})
        return f"<{x.cls.__name__} object>"
    if isinstance(x, (list, tuple, dict)) and has_sym(x):
        # repr of a container with symbolic leaves: opaque but deterministic string
        return mk_str('repr_container')
    if isinstance(x, BaseException) and has_sym(x.args):
        if len(x.args) == 1:
            return py_str(ip, x.args[0], node)
        return mk_str('exc_str')
    try:
        return str(x)
    except Exception as e:
        raise Raised(e)


def py_repr(ip, x, node=None):
    if isinstance(x, SV) and x.is_str():
        # repr adds quotes (escaping not modelled: only used for messages)
        r = z3.String(fresh_name('repr'))
        ip.ctx.assume(z3.Length(r) >= z3.Length(x.t) + 2)
        return SV(r)
    if isinstance(x, (SV, SOpt)):
        return py_str(ip, x, node)
    if has_sym(x):
        return mk_str('repr')
    return repr(x)


def format_value(ip, x, conv, spec, node):
    if spec not in (None, ''):
        if not has_sym(x) and not has_sym(spec):
            return format(x, spec)
        raise Unsupported("format spec on symbolic value")
    if conv == 114:
        return py_repr(ip, x, node)
    return py_str(ip, x, node)


def concat_strs(ip, parts):
    if all(isinstance(p, str) for p in parts):
        return ''.join(parts)
    terms = []
    buf = ''
    for p in parts:
        if isinstance(p, str):
            buf += p
        else:
            if buf:
                terms.append(z3.StringVal(buf))
                buf = ''
            terms.append(p.t)
    if buf:
        terms.append(z3.StringVal(buf))
    if len(terms) == 1:
        return wrap(terms[0])
    return wrap(z3.Concat(*terms))


_CASELESS_EXTRA = [z3.Re(c) for c in '½¼§–—']      # non-ASCII characters of the patterns: no case (A-STR)
NOUPPER = z3.Star(z3.Union(z3.Range('\x00', '@'), z3.Range('[', '\x7f'), *_CASELESS_EXTRA))     # no A-Z
NOLOWER = z3.Star(z3.Union(z3.Range('\x00', '`'), z3.Range('{', '\x7f'), *_CASELESS_EXTRA))     # no a-z

_lower_fn = z3.Function('py_lower', STR, STR)
_upper_fn = z3.Function('py_upper', STR, STR)


def str_lower(ip, s, upper=False):
    """s.lower() / s.upper(): uninterpreted, length-preserving on ASCII, idempotent, identity on strings without the
    other case; characterised per character for short strings (A-STR)."""
    if isinstance(s, str):
        return s.upper() if upper else s.lower()
    fn = _upper_fn if upper else _lower_fn
    st = z3.simplify(s.t)
    memo = ip.hooks.setdefault(('case_memo',), {})
    mkey = (st.get_id(), upper)
    if mkey in memo:
        return memo[mkey]
    res = _str_case(ip, s, st, fn, upper)
    memo[mkey] = res
    return res


def _str_case(ip, s, st, fn, upper):
    if z3.is_app(st) and st.decl().kind() == z3.Z3_OP_SEQ_CONCAT:
        # case mapping is a homomorphism on ASCII (A-STR): distribute over the concatenation
        parts = [str_lower(ip, wrap(st.arg(i)), upper) for i in range(st.num_args())]
        return concat_strs(ip, parts)
    noother = NOLOWER if upper else NOUPPER
    bound = ip.hooks.get(('strlen_bound',), {}).get(st.get_id())
    # known language whose case-mapped image is a single string (e.g. [xX]{3}[zZ] -> 'xxxz')
    L = ip.ctx.lang_of.get(st.get_id())
    if L is not None:
        w = case_image_singleton(L, upper)
        if w is not None:
            return w
    if bound is not None and bound <= 1:
        # short string of known maximal length: exact ASCII case mapping per character
        chars = []
        for i in range(bound):
            c = z3.SubString(st, i, 1)
            code = z3.StrToCode(c)
            if upper:
                m = z3.If(z3.And(code >= 97, code <= 122), z3.StrFromCode(code - 32), c)
            else:
                m = z3.If(z3.And(code >= 65, code <= 90), z3.StrFromCode(code + 32), c)
            chars.append(m)
        r = z3.String(fresh_name('lowered'))
        ip.ctx.assume(r == (z3.Concat(*chars) if len(chars) > 1 else chars[0]))
        if L is not None:
            img = case_image(L, upper)
            if img is not None:
                ip.ctx.assume(z3.InRe(r, img))
        ip.hooks.setdefault(('strlen_bound',), {})[r.get_id()] = bound
        return SV(r)
    # already free of the other case on this path?  then the mapping is the identity (no uninterpreted term needed)
    if L is not None:
        from .ctx import lang_relation
        if lang_relation(L, noother) is True:
            return s
    if not ip.ctx.feasible(z3.Not(z3.InRe(st, noother))):
        return s
    r = fn(st)
    ip.ctx.assume(z3.Length(r) == z3.Length(st))
    ip.ctx.assume(z3.Implies(z3.InRe(st, noother), r == st))
    # the result contains no character of the other case when the input is ASCII
    ascii_ = z3.Star(z3.Range('\x00', '\x7f'))
    ip.ctx.assume(z3.Implies(z3.InRe(st, ascii_), z3.InRe(r, noother)))
    res = SV(r)
    key = ('lower_pairs',)
    ip.hooks.setdefault(key, []).append((st, r, upper))
    return res


_img_cache = {}


def case_image(L, upper):
    """RegLan of { lower(w) | w in L } for the regex constructors the shapes use; None if not computable"""
    if not z3.is_app(L):
        return None
    k = L.decl().kind()
    ch = [L.arg(i) for i in range(L.num_args())]
    if k == z3.Z3_OP_SEQ_TO_RE:
        a = ch[0]
        if z3.is_string_value(a):
            from .api import zstr
            w = zstr(a)
            return z3.Re(w.upper() if upper else w.lower())
        return None
    if k == z3.Z3_OP_RE_RANGE:
        from .api import zstr
        lo, hi = zstr(ch[0]), zstr(ch[1])
        if len(lo) != 1 or len(hi) != 1:
            return None
        src = ('a', 'z') if upper else ('A', 'Z')
        if hi < src[0] or lo > src[1]:
            return L
        if lo >= src[0] and hi <= src[1]:
            return z3.Range(lo.upper(), hi.upper()) if upper else z3.Range(lo.lower(), hi.lower())
        return None
    if k in (z3.Z3_OP_RE_UNION, z3.Z3_OP_RE_CONCAT):
        subs = [case_image(c, upper) for c in ch]
        if any(x is None for x in subs):
            return None
        return z3.Union(*subs) if k == z3.Z3_OP_RE_UNION else z3.Concat(*subs)
    if k in (z3.Z3_OP_RE_STAR, z3.Z3_OP_RE_PLUS, z3.Z3_OP_RE_OPTION):
        sub = case_image(ch[0], upper)
        if sub is None:
            return None
        return {z3.Z3_OP_RE_STAR: z3.Star, z3.Z3_OP_RE_PLUS: z3.Plus, z3.Z3_OP_RE_OPTION: z3.Option}[k](sub)
    if k == z3.Z3_OP_RE_LOOP:
        sub = case_image(ch[0], upper)
        if sub is None:
            return None
        ps = L.decl().params()
        return z3.Loop(sub, ps[0], ps[1] if len(ps) > 1 else 0)
    if k == z3.Z3_OP_RE_INTERSECT:
        return None
    return None


def case_image_singleton(L, upper):
    key = (L.sexpr(), upper)
    if key in _img_cache:
        return _img_cache[key]
    res = None
    img = case_image(L, upper)
    if img is not None:
        x = z3.String('img_probe')
        s = z3.Solver()
        s.set('timeout', 2000)
        s.add(z3.InRe(x, img))
        if s.check() == z3.sat:
            from .api import zstr
            w = s.model().eval(x, model_completion=True)
            s.add(x != w)
            if s.check() == z3.unsat:
                res = zstr(w)
    _img_cache[key] = res
    return res


def lower_char_facts(ip, st, r, upper, maxlen=1):
    """pointwise facts for single characters: used by endswith/[-1] reasoning"""
    pass


def method_str(ip, recv, name, args, kwargs, node):
    s = recv
    st = S(s)
    if name in ('lower', 'upper'):
        return str_lower(ip, s, upper=(name == 'upper'))
    if name in ('startswith', 'endswith'):
        pat = args[0]
        pats = pat if isinstance(pat, tuple) else (pat,)
        terms = []
        for p in pats:
            p = unopt(ip, p, node)
            if not is_strval(p):
                raise Raised(TypeError(f"{name} first arg must be str or a tuple of str"))
            terms.append(z3.PrefixOf(S(p), st) if name == 'startswith' else z3.SuffixOf(S(p), st))
        return wrap(z3.Or(*terms)) if len(terms) > 1 else wrap(terms[0])
    if name in ('strip', 'lstrip', 'rstrip'):
        chars = args[0] if args else None
        if chars is not None and not isinstance(chars, str):
            raise Unsupported("strip with symbolic chars")
        return str_strip(ip, s, name, chars)
    if name == 'rjust' or name == 'ljust' or name == 'zfill':
        if name == 'zfill':
            width, fill = args[0], '0'
        else:
            width = args[0]
            fill = args[1] if len(args) > 1 else ' '
        if not isinstance(width, int) or not isinstance(fill, str):
            raise Unsupported("rjust with symbolic width")
        n = z3.Length(st)
        pads = [z3.StringVal(fill * k) for k in range(width + 1)]
        pad = z3.StringVal('')
        for k in range(1, width + 1):
            pad = z3.If(n == width - k, z3.StringVal(fill * k), pad)
        if name == 'ljust':
            res = z3.Concat(st, pad)
        else:
            res = z3.Concat(pad, st)
        res = z3.simplify(res)
        out = wrap(res)
        if isinstance(out, SV) and fill == '0' and name != 'ljust':
            # leading zeros do not change the value of a digit string (theorem of str.to_int)
            ip.ctx.assume(z3.Implies(z3.InRe(st, DIGITS1), z3.StrToInt(res) == z3.StrToInt(st)))
        return out
    if name == 'join':
        return str_join(ip, s, args[0], node)
    if name == 'replace':
        old, new = args[0], args[1]
        if len(args) > 2:
            raise Unsupported("replace with count")
        if not (is_strval(old) and is_strval(new)):
            raise Raised(TypeError("replace() arguments must be str"))
        if isinstance(old, str) and old == '':
            raise Unsupported("replace of empty string")
        return wrap(z3_replace_all(st, S(old), S(new), ip))
    if name == 'split':
        return str_split(ip, s, args, kwargs, node)
    if name == 'isdigit' or name == 'isnumeric' or name == 'isdecimal':
        # ASCII model (A-CLASS)
        return wrap(z3.InRe(st, DIGITS1))
    if name == 'isalpha':
        return wrap(z3.InRe(st, z3.Plus(z3.Union(UPPER, LOWER))))
    if name == 'find' or name == 'index':
        sub = args[0]
        if len(args) > 1:
            raise Unsupported("find with start")
        r = z3.IndexOf(st, S(sub), 0)
        if name == 'index':
            ip.safe('substring not found', r >= 0, ValueError, node)
        return wrap(r)
    if name == 'count':
        raise Unsupported("str.count on symbolic string")
    if name == 'format':
        raise Unsupported("str.format on symbolic string")
    if name == 'splitlines':
        raise Unsupported("splitlines on symbolic string")
    if name == 'encode':
        raise Unsupported("encode on symbolic string")
    if name == '__len__':
        return wrap(z3.Length(st))
    raise Unsupported(f"str method {name}")


_replace_all_fn = z3.Function('py_replace_all', STR, STR, STR, STR)


def z3_replace_all(s, old, new, ip=None):
    """str.replace(old, new) (all occurrences): uninterpreted, with the facts that need no induction."""
    r = _replace_all_fn(s, old, new)
    if ip is not None:
        ip.ctx.assume(z3.Implies(z3.Not(z3.Contains(s, old)), r == s))
        ip.ctx.assume(z3.Implies(z3.Length(old) == z3.Length(new), z3.Length(r) == z3.Length(s)))
        ip.ctx.assume(z3.Implies(s == old, r == new))
    return r


def str_strip(ip, s, which, chars):
    """strip: unique decomposition s = l + m + r with l, r in [chars]* and m not starting/ending with chars."""
    st = S(s)
    memo = ip.hooks.setdefault(('strip_memo',), {})
    mkey = (st.get_id(), which, chars)
    if mkey in memo:
        return memo[mkey]
    res = _str_strip(ip, s, which, chars)
    memo[mkey] = res
    return res


def _str_strip(ip, s, which, chars):
    st = S(s)
    if chars is None:
        cs = [' ', '\t', '\n', '\r', '\x0b', '\x0c', '\x1c', '\x1d', '\x1e', '\x1f', '\x85', '\xa0']
    else:
        cs = list(dict.fromkeys(chars))
    if not cs:
        return s
    cset = z3.Union(*[z3.Re(c) for c in cs]) if len(cs) > 1 else z3.Re(cs[0])
    star = z3.Star(cset)
    allc0 = z3.AllChar(z3.ReSort(STR))
    notc0 = z3.Diff(allc0, cset)
    any0 = z3.Full(z3.ReSort(STR))
    stx = z3.simplify(st)
    if z3.is_app(stx) and stx.decl().kind() == z3.Z3_OP_SEQ_CONCAT:
        # concatenation: strip literal ends natively as long as the neighbouring symbolic part provably neither is empty nor
        # begins / ends with a strip character
        from .ctx import lang_relation
        from .api import zstr
        from .rx import _flat_parts
        parts = _flat_parts(stx)
        ok = True

        def solid(p, left):
            Lp = ip.ctx.lang_of.get(p.get_id())
            if Lp is None:
                return False
            want = z3.Concat(notc0, any0) if left else z3.Concat(any0, notc0)
            return lang_relation(Lp, want) is True
        if which in ('strip', 'lstrip'):
            while parts and ok:
                p = parts[0]
                if z3.is_string_value(p):
                    t = zstr(p).lstrip(''.join(cs))
                    if t == '':
                        parts.pop(0)
                        continue
                    parts[0] = z3.StringVal(t)
                    break
                ok = solid(p, True)
                break
        if which in ('strip', 'rstrip'):
            while parts and ok:
                p = parts[-1]
                if z3.is_string_value(p):
                    t = zstr(p).rstrip(''.join(cs))
                    if t == '':
                        parts.pop()
                        continue
                    parts[-1] = z3.StringVal(t)
                    break
                ok = solid(p, False)
                break
        if ok:
            if not parts:
                return ''
            return wrap(z3.Concat(*parts) if len(parts) > 1 else parts[0])
    L = ip.ctx.lang_of.get(z3.simplify(st).get_id())
    if L is not None:
        # nothing to strip: decided from the language fact of the string alone
        from .ctx import lang_relation
        if which == 'strip':
            core0 = z3.Union(z3.Re(''), notc0, z3.Concat(notc0, any0, notc0))
        elif which == 'lstrip':
            core0 = z3.Union(z3.Re(''), z3.Concat(notc0, any0))
        else:
            core0 = z3.Union(z3.Re(''), z3.Concat(any0, notc0))
        if lang_relation(L, core0) is True:
            return s
    l = z3.String(fresh_name('strip_l'))
    m = z3.String(fresh_name('strip_m'))
    r = z3.String(fresh_name('strip_r'))
    ip.ctx.assume(st == z3.Concat(l, m, r))
    ip.ctx.assume(z3.InRe(l, star))
    ip.ctx.assume(z3.InRe(r, star))
    if which == 'rstrip':
        ip.ctx.assume(l == z3.StringVal(''))
    if which == 'lstrip':
        ip.ctx.assume(r == z3.StringVal(''))
    allc = z3.AllChar(z3.ReSort(STR))
    notc = z3.Diff(allc, cset)
    any_ = z3.Full(z3.ReSort(STR))
    if which == 'strip':
        core = z3.Union(z3.Re(''), notc, z3.Concat(notc, any_, notc))
    elif which == 'lstrip':
        core = z3.Union(z3.Re(''), z3.Concat(notc, any_))
    else:
        core = z3.Union(z3.Re(''), z3.Concat(any_, notc))
    ip.ctx.assume(z3.InRe(m, core))
    return SV(m)


def str_join(ip, sep, items, node):
    if isinstance(items, SOpt):
        items = unopt(ip, items, node)
    if items is None:
        raise Raised(TypeError("can only join an iterable"))
    if isinstance(items, (list, tuple)):
        parts = []
        for i, x in enumerate(items):
            x = unopt(ip, x, node)
            if not is_strval(x):
                raise Raised(TypeError(f"sequence item {i}: expected str instance, {type(x).__name__} found"))
            if i:
                parts.append(sep)
            parts.append(x)
        if not parts:
            return ''
        return concat_strs(ip, parts)
    if isinstance(items, SymList):
        if items.t.sort().basis() != STR:
            raise Raised(TypeError("sequence item 0: expected str instance"))
        f = z3.Function('py_join', STR, z3.SeqSort(STR), STR)
        r = f(S(sep), items.t)
        ip.ctx.assume(z3.Implies(z3.Length(items.t) == 0, r == z3.StringVal('')))
        ip.ctx.assume(z3.Implies(z3.Length(items.t) == 1, r == items.t[0]))
        return SV(r)
    if is_strval(items):
        raise Unsupported("join over characters of a symbolic string")
    raise Unsupported(f"join over {type(items).__name__}")


def str_split(ip, s, args, kwargs, node):
    """s.split(sep) for a one-character separator: exact per number of pieces; the number of pieces is explored up to
    hooks['max_split'] (a *bound*, recorded as assumption `bound:split<=N`)."""
    sep = args[0] if args else kwargs.get('sep')
    if not isinstance(sep, str) or len(sep) != 1 or len(args) > 1 or 'maxsplit' in kwargs:
        raise Unsupported("split on symbolic string (only one-character separators are modelled)")
    st = S(s)
    memo = ip.hooks.setdefault(('split_memo',), {})
    key = (st.get_id(), sep)
    if key in memo:
        return list(memo[key])
    maxn = ip.hooks.get('max_split', 3)
    exact = ip.hooks.get('split_exact')
    k = (exact - 1) if exact else ip.ctx.choose(maxn + 1, 'split-pieces')
    if k == maxn:
        # more than maxn pieces: outside the explored bound
        ip.ctx.assumed.append(f'bound:split<={maxn}')
        cnt = z3.Int(fresh_name('nsep'))
        raise PathEnd()
    n = k + 1
    nosep = z3.Star(z3.Diff(z3.AllChar(z3.ReSort(STR)), z3.Re(sep)))
    ws = [z3.String(fresh_name(f'piece{i}')) for i in range(n)]
    for w in ws:
        ip.ctx.assume(z3.InRe(w, nosep))
    parts = []
    for i, w in enumerate(ws):
        if i:
            parts.append(z3.StringVal(sep))
        parts.append(w)
    ip.ctx.assume(st == (z3.Concat(*parts) if len(parts) > 1 else parts[0]))
    out = [SV(w) for w in ws]
    memo[key] = out
    ip.ctx.assumed.append(f'bound:split<={maxn}')
    return list(out)


# ------------------------------------------------------------------------------------------
# method dispatch
# ------------------------------------------------------------------------------------------
NATIVE_METHOD_MODELS = {}


def call_method(ip, recv, name, args, kwargs, node):
    from . import rx
    if isinstance(recv, SV):
        if recv.is_str():
            return method_str(ip, recv, name, args, kwargs, node)
        raise Raised(AttributeError(f"int/bool object has no attribute {name!r}"))
    if isinstance(recv, str):
        if not has_sym(args) and not has_sym(kwargs):
            return ip.native(getattr(recv, name), args, kwargs)
        return method_str(ip, recv, name, args, kwargs, node)
    if isinstance(recv, SymList):
        return method_symlist(ip, recv, name, args, kwargs, node)
    if isinstance(recv, _re.Pattern):
        return rx.pattern_method(ip, recv, name, args, kwargs, node)
    if isinstance(recv, rx.SymMatch):
        return recv.method(ip, name, args, kwargs, node)
    if isinstance(recv, list):
        return method_list(ip, recv, name, args, kwargs, node)
    if isinstance(recv, dict):
        return method_dict(ip, recv, name, args, kwargs, node)
    if isinstance(recv, tuple):
        if name == 'index' or name == 'count':
            raise Unsupported("tuple.index with symbolic")
    if isinstance(recv, set):
        if name == 'add' and not has_sym(args):
            return recv.add(*args)
        raise Unsupported("set method with symbolic elements")
    if not has_sym(args) and not has_sym(kwargs):
        return ip.native(getattr(recv, name), args, kwargs)
    raise Unsupported(f"method {type(recv).__name__}.{name} with symbolic arguments")


def method_list(ip, recv, name, args, kwargs, node):
    if name in ('append', 'extend', 'insert', 'pop', 'reverse', 'copy', 'clear', '__len__'):
        if name == 'extend' and isinstance(args[0], SymList):
            raise Unsupported("extend native list with symbolic list")
        if name == 'extend':
            recv.extend(list(ip.iterate(args[0], node)))
            return None
        if name in ('insert', 'pop') and has_sym(args[:1]):
            raise Unsupported(f"list.{name} with symbolic index")
        return ip.native(getattr(recv, name), args, kwargs)
    if name == 'index':
        for i, x in enumerate(recv):
            r = eq(ip, x, args[0])
            if (isinstance(r, bool) and r) or (not isinstance(r, bool) and ip.ctx.branch(r)):
                return i
        raise Raised(ValueError("not in list"))
    if name == 'remove':
        for i, x in enumerate(recv):
            r = eq(ip, x, args[0])
            if (isinstance(r, bool) and r) or (not isinstance(r, bool) and ip.ctx.branch(r)):
                del recv[i]
                return None
        raise Raised(ValueError("list.remove(x): x not in list"))
    if name == 'count':
        terms = []
        for x in recv:
            r = eq(ip, x, args[0])
            terms.append(z3.If(r if not isinstance(r, bool) else z3.BoolVal(r), 1, 0))
        return wrap(z3.Sum(*terms)) if terms else 0
    if name == 'sort':
        return list_sort(ip, recv, args, kwargs, node)
    raise Unsupported(f"list.{name} on list with symbolic content")


def list_sort(ip, recv, args, kwargs, node):
    key = kwargs.get('key')
    rev = kwargs.get('reverse', False)
    if not has_sym(recv) and key is None and not has_sym(rev):
        recv.sort(reverse=rev)
        return None
    if key is not None and not has_sym(rev) and isinstance(recv, list):
        # concrete keys (the elements may be interpreted objects): evaluate the key function through the interpreter and let
        # CPython's own stable sort order the elements by those keys
        keys = [ip.call(key, [x], {}, node) for x in recv]
        if not any(has_sym(k) for k in keys):
            order = sorted(range(len(recv)), key=lambda i: keys[i], reverse=bool(rev))
            recv[:] = [recv[i] for i in order]
            return None
    raise Unsupported("list.sort on symbolic content (use the list.sort contract)")


def method_dict(ip, recv, name, args, kwargs, node):
    if name == 'get':
        k = args[0]
        default = args[1] if len(args) > 1 else kwargs.get('default', None)
        if has_sym(k):
            for c in recv.keys():
                r = eq(ip, k, c)
                if (isinstance(r, bool) and r) or (not isinstance(r, bool) and ip.ctx.branch(r)):
                    return recv[c]
            return default
        try:
            return recv.get(k, default)
        except TypeError as e:
            raise Raised(e)
    if name in ('keys', 'values', 'items', 'copy', 'update', 'setdefault', 'pop', 'clear'):
        if name in ('setdefault', 'pop') and has_sym(args[:1]):
            raise Unsupported(f"dict.{name} with symbolic key")
        return ip.native(getattr(recv, name), args, kwargs)
    raise Unsupported(f"dict.{name}")


def method_symlist(ip, recv, name, args, kwargs, node):
    t = recv.t
    n = z3.Length(t)
    if name == 'append':
        recv.t = z3.simplify(z3.Concat(t, z3.Unit(lift(args[0]))))
        return None
    if name == 'extend':
        recv.t = z3.simplify(z3.Concat(t, to_seq_term(ip, args[0], t.sort())))
        return None
    if name == 'copy':
        return SymList(t, recv.elem)
    if name == 'pop':
        idx = args[0] if args else -1
        it = lift(idx)
        ip.safe('pop from empty list / index out of range', z3.And(it >= -n, it < n), IndexError, node)
        j = z3.simplify(norm_index(it, n))
        v = seq_wrap_elem(recv, z3.simplify(t[j]))
        recv.t = z3.simplify(z3.Concat(z3.Extract(t, 0, j), z3.Extract(t, j + 1, n - j - 1)))
        return v
    if name == 'insert':
        it = lift(args[0])
        j = clamp(it, n)
        recv.t = z3.simplify(z3.Concat(z3.Extract(t, 0, j), z3.Unit(lift(args[1])), z3.Extract(t, j, n - j)))
        return None
    if name == 'reverse':
        recv.t = seq_reverse(ip, t)
        return None
    if name == 'clear':
        recv.t = z3.Empty(t.sort())
        return None
    if name == 'index':
        raise Unsupported("symbolic list.index")
    raise Unsupported(f"symbolic list method {name}")


_rev_fns = {}


def seq_reverse(ip, t):
    """reverse as an uninterpreted involution with pointwise characterisation (instantiated lazily by lemmas)."""
    srt = t.sort()
    key = str(srt)
    if key not in _rev_fns:
        _rev_fns[key] = z3.Function('py_rev_' + key.replace(' ', '_').replace('(', '').replace(')', ''), srt, srt)
    f = _rev_fns[key]
    r = f(t)
    ip.ctx.assume(z3.Length(r) == z3.Length(t))
    ip.ctx.assume(f(r) == t)
    i = z3.Int(fresh_name('ri'))
    n = z3.Length(t)
    ip.ctx.assume(z3.ForAll([i], z3.Implies(z3.And(i >= 0, i < n), r[i] == t[n - 1 - i])))
    return r


# ------------------------------------------------------------------------------------------
# builtin function models
# ------------------------------------------------------------------------------------------
_MODELS = {}


def model(*fns):
    def deco(f):
        for fn in fns:
            _MODELS[id(fn)] = (fn, f)
        return f
    return deco


def lookup_model(fn):
    try:
        e = _MODELS.get(id(fn))
    except Exception:
        return None
    if e is not None and e[0] is fn:
        return e[1]
    return None


def register_model(fn, f):
    _MODELS[id(fn)] = (fn, f)


@model(len)
def _len(ip, args, kwargs, node):
    v = args[0]
    if isinstance(v, SOpt):
        v = unopt(ip, v, node)
        if v is None:
            raise Raised(TypeError("object of type 'NoneType' has no len()"))
    if isinstance(v, SV):
        if v.is_str() or v.is_seq():
            return wrap(z3.Length(v.t))
        raise Raised(TypeError("object has no len()"))
    if isinstance(v, SymList):
        return wrap(z3.Length(v.t))
    if isinstance(v, GhostList):
        return v.seq.length
    if isinstance(v, ADict):
        return len(v.entries)
    if isinstance(v, SymSet):
        return len(v.items)
    if isinstance(v, Obj):
        m = ip.class_lookup(v.cls, '__len__')
        if m is None:
            raise Raised(TypeError("object has no len()"))
        return ip.call(m, [v], {})
    try:
        return len(v)
    except Exception as e:
        raise Raised(e)


@model(str)
def _str(ip, args, kwargs, node):
    if not args:
        return ''
    return py_str(ip, args[0], node)


@model(repr)
def _repr(ip, args, kwargs, node):
    return py_repr(ip, args[0], node)


@model(int)
def _int(ip, args, kwargs, node):
    if not args:
        return 0
    v = args[0]
    if len(args) > 1 or kwargs:
        raise Unsupported("int() with base")
    if isinstance(v, SOpt):
        v = unopt(ip, v, node)
    if v is None:
        raise Raised(TypeError("int() argument must be a string, a bytes-like object or a real number, not 'NoneType'"))
    if isinstance(v, SV):
        if v.is_int():
            return v
        if v.is_bool():
            return wrap(z3.If(v.t, 1, 0))
        if v.is_str():
            return py_int_of_str(ip, v, node)
    if isinstance(v, (Obj, list, tuple, dict, SymList)):
        raise Raised(TypeError("int() argument must be a string, a bytes-like object or a real number"))
    try:
        return int(v)
    except Exception as e:
        raise Raised(e)


@model(bool)
def _bool(ip, args, kwargs, node):
    if not args:
        return False
    t = ip.truth(args[0])
    return t if isinstance(t, bool) else wrap(t)


@model(isinstance)
def _isinstance(ip, args, kwargs, node):
    v, t = args
    ts = t if isinstance(t, tuple) else (t,)
    if isinstance(v, Obj):
        return any(isinstance(x, type) and issubclass(v.cls, x) for x in ts)
    if isinstance(v, SOpt):
        if ip.ctx.branch(v.n):
            return isinstance(None, ts)
        v = v.v
    if isinstance(v, SV):
        if v.is_bool():
            return bool in ts or int in ts or object in ts
        if v.is_int():
            return int in ts or object in ts
        if v.is_str():
            return str in ts or object in ts
        return list in ts
    if isinstance(v, SymList):
        return list in ts or object in ts
    if isinstance(v, Closure):
        return types.FunctionType in ts
    return isinstance(v, ts)


@model(type)
def _type(ip, args, kwargs, node):
    v = args[0]
    if len(args) != 1:
        raise Unsupported("3-arg type()")
    if isinstance(v, Obj):
        return v.cls
    if isinstance(v, SOpt):
        if ip.ctx.branch(v.n):
            return type(None)
        v = v.v
    if isinstance(v, SV):
        return bool if v.is_bool() else int if v.is_int() else str if v.is_str() else list
    if isinstance(v, SymList):
        return list
    return type(v)


@model(getattr)
def _getattr(ip, args, kwargs, node):
    obj, name = args[0], args[1]
    if not isinstance(name, str):
        if isinstance(name, SV):
            raise Unsupported("getattr with symbolic attribute name")
        raise Raised(TypeError("attribute name must be string"))
    if len(args) > 2:
        return ip.getattr(obj, name, node, default=args[2])
    return ip.getattr(obj, name, node)


@model(setattr)
def _setattr(ip, args, kwargs, node):
    obj, name, val = args
    if isinstance(name, SV) and isinstance(obj, Obj):
        # the name is one of the object's existing attributes (case split); a new name is not modelled
        name = concretize(ip, name, list(obj.fields.keys()), node, AttributeError)
    if not isinstance(name, str):
        raise Unsupported("setattr with symbolic attribute name")
    ip.setattr(obj, name, val, node)
    return None


@model(hasattr)
def _hasattr(ip, args, kwargs, node):
    obj, name = args
    sentinel = object()
    try:
        r = ip.getattr(obj, name, node, default=sentinel)
    except Raised as e:
        if issubclass(e.cls, AttributeError):
            return False
        raise
    return r is not sentinel


@model(callable)
def _callable(ip, args, kwargs, node):
    v = args[0]
    if isinstance(v, (Closure, BoundMethod)):
        return True
    if isinstance(v, (SV, SOpt, SymList)):
        return False
    if isinstance(v, Obj):
        return ip.class_lookup(v.cls, '__call__') is not None
    return callable(v)


@model(id)
def _id(ip, args, kwargs, node):
    return id(args[0])


@model(hash)
def _hash(ip, args, kwargs, node):
    v = args[0]
    if isinstance(v, Obj):
        m = ip.class_lookup(v.cls, '__hash__')
        if m is not None:
            return ip.call(m, [v], {})
        return id(v)
    if isinstance(v, SV):
        f = z3.Function('py_hash_' + str(v.t.sort()), v.t.sort(), z3.IntSort())
        return SV(f(v.t))
    return hash(v)


@model(list)
def _list(ip, args, kwargs, node):
    if not args:
        return []
    v = args[0]
    if isinstance(v, SymList):
        return SymList(v.t, v.elem)
    return list(ip.iterate(v, node))


@model(tuple)
def _tuple(ip, args, kwargs, node):
    if not args:
        return ()
    v = args[0]
    if isinstance(v, SymList):
        raise Unsupported("tuple() of symbolic list")
    return tuple(ip.iterate(v, node))


@model(dict)
def _dict(ip, args, kwargs, node):
    d = {}
    if args:
        src = args[0]
        if isinstance(src, dict):
            d.update(src)
        else:
            for kv in ip.iterate(src, node):
                k, v = kv
                if has_sym(k):
                    raise Unsupported("dict() with symbolic key")
                d[k] = v
    d.update(kwargs)
    return d


@model(set)
def _set(ip, args, kwargs, node):
    if not args:
        return set()
    items = list(ip.iterate(args[0], node))
    if has_sym(items):
        raise Unsupported("set() with symbolic elements")
    try:
        return set(items)
    except TypeError as e:
        raise Raised(e)


@model(range)
def _range(ip, args, kwargs, node):
    if has_sym(args):
        # symbolic bounds: exact per number of elements; the count is explored up to hooks['max_range'] (a bound,
        # recorded as assumption `bound:range<=N`)
        maxn = ip.hooks.get('max_range')
        if maxn is None:
            raise Unsupported("range with symbolic bounds needs a loop contract")
        if len(args) == 1:
            lo, hi, st = 0, args[0], 1
        elif len(args) == 2:
            lo, hi, st = args[0], args[1], 1
        else:
            lo, hi, st = args
        if not isinstance(st, int) or st == 0:
            raise Unsupported("range with symbolic step")
        memo = ip.hooks.setdefault(('range_memo',), {})
        key = (str(lift(lo)), str(lift(hi)), st)
        if key in memo:
            n = memo[key]
        else:
            n = ip.ctx.choose(maxn + 2, 'range-count')
            memo[key] = n
        span = (lift(hi) - lift(lo)) if st > 0 else (lift(lo) - lift(hi))
        a = abs(st)
        ip.ctx.assumed.append(f'bound:range<={maxn}')
        if n == maxn + 1:
            raise PathEnd()           # more elements than the explored bound
        if n == 0:
            ip.ctx.assume(span <= 0)
        else:
            ip.ctx.assume(z3.And(span > (n - 1) * a, span <= n * a))
        if not ip.ctx.feasible(z3.BoolVal(True)):
            raise PathInfeasible()
        return [wrap(lift(lo) + k * st) for k in range(n)]
    return range(*args)


@model(enumerate)
def _enumerate(ip, args, kwargs, node):
    start = kwargs.get('start', args[1] if len(args) > 1 else 0)
    return list(enumerate(ip.iterate(args[0], node), start))


@model(zip)
def _zip(ip, args, kwargs, node):
    return list(zip(*[list(ip.iterate(a, node)) for a in args]))


@model(reversed)
def _reversed(ip, args, kwargs, node):
    return list(reversed(list(ip.iterate(args[0], node))))


@model(map)
def _map(ip, args, kwargs, node):
    fn = args[0]
    its = [list(ip.iterate(a, node)) for a in args[1:]]
    return [ip.call(fn, list(xs), {}) for xs in zip(*its)]


@model(filter)
def _filter(ip, args, kwargs, node):
    fn = args[0]
    out = []
    for x in ip.iterate(args[1], node):
        r = x if fn is None else ip.call(fn, [x], {})
        if ip.decide(r):
            out.append(x)
    return out


@model(all)
def _all(ip, args, kwargs, node):
    v = args[0]
    if isinstance(v, QuantView):
        return v.all_(ip)
    terms = []
    for x in ip.iterate(v, node):
        t = ip.truth(x)
        if isinstance(t, bool):
            if not t:
                return False
        else:
            if ip.spec_depth:
                terms.append(t)
            elif not ip.ctx.branch(t):
                return False
    if terms:
        return wrap(z3.And(*terms))
    return True


@model(any)
def _any(ip, args, kwargs, node):
    v = args[0]
    if isinstance(v, QuantView):
        return v.any_(ip)
    terms = []
    for x in ip.iterate(v, node):
        t = ip.truth(x)
        if isinstance(t, bool):
            if t:
                return True
        else:
            if ip.spec_depth:
                terms.append(t)
            elif ip.ctx.branch(t):
                return True
    if terms:
        return wrap(z3.Or(*terms))
    return False


@model(max, min)
def _maxmin(ip, args, kwargs, node):
    raise Unsupported("max/min")


def _mk_max(is_max):
    def f(ip, args, kwargs, node):
        if kwargs:
            raise Unsupported("max/min with key/default")
        items = list(args) if len(args) > 1 else args[0]
        if isinstance(items, QuantView):
            return items.max_(ip, is_max, node)
        items = list(ip.iterate(items, node))
        if not items:
            raise Raised(ValueError("max() arg is an empty sequence"))
        if not has_sym(items):
            return ip.native(max if is_max else min, [items], {})
        cur = unopt(ip, items[0], node)
        if cur is None:
            raise Raised(TypeError("'>' not supported for NoneType"))
        for x in items[1:]:
            x = unopt(ip, x, node)
            if x is None:
                raise Raised(TypeError("'>' not supported for NoneType"))
            c = (lift(x) > lift(cur)) if is_max else (lift(x) < lift(cur))
            cur = wrap(z3.If(c, lift(x), lift(cur)))
        return cur
    return f


register_model(max, _mk_max(True))
register_model(min, _mk_max(False))


@model(sum)
def _sum(ip, args, kwargs, node):
    items = list(ip.iterate(args[0], node))
    acc = args[1] if len(args) > 1 else 0
    for x in items:
        acc = binop(ip, ast.Add(), acc, x, node)
    return acc


@model(sorted)
def _sorted(ip, args, kwargs, node):
    items = list(ip.iterate(args[0], node))
    if has_sym(items) and not kwargs and all(is_intval(x) for x in items) and len(items) <= 14:
        # small list of symbolic integers: insertion sort, each comparison decided on the path (forks)
        out = []
        for x in items:
            pos = len(out)
            for n, y in enumerate(out):
                c = z3.simplify(lift(x) < lift(y))
                if (z3.is_true(c)) or (not z3.is_false(c) and ip.ctx.branch(c)):
                    pos = n
                    break
            out.insert(pos, x)
        return out
    if has_sym(items) or has_sym(kwargs):
        raise Unsupported("sorted with symbolic content")
    key = kwargs.get('key')
    if key is not None and not callable(key):
        raise Unsupported("sorted key")
    if isinstance(key, (Closure, BoundMethod)):
        ks = [ip.call(key, [x], {}) for x in items]
        if has_sym(ks):
            raise Unsupported("sorted symbolic keys")
        order = sorted(range(len(items)), key=lambda i: ks[i], reverse=bool(kwargs.get('reverse', False)))
        return [items[i] for i in order]
    return ip.native(sorted, [items], kwargs)


@model(abs)
def _abs(ip, args, kwargs, node):
    v = args[0]
    if isinstance(v, SV):
        return wrap(z3.If(v.t >= 0, v.t, -v.t))
    return abs(v)


@model(print)
def _print(ip, args, kwargs, node):
    return None


@model(open)
def _open(ip, args, kwargs, node):
    return Uninterp('file')


@model(iter)
def _iter(ip, args, kwargs, node):
    return iter(list(ip.iterate(args[0], node)))


@model(next)
def _next(ip, args, kwargs, node):
    try:
        return next(args[0])
    except StopIteration as e:
        if len(args) > 1:
            return args[1]
        raise Raised(e)


import warnings as _warnings


@model(_warnings.warn)
def _warn(ip, args, kwargs, node):
    ip.ctx.notes.append(('warning', args[0] if args else None))
    return None


# ------------------------------------------------------------------------------------------
# quantified views (comprehensions over symbolic object lists)
# ------------------------------------------------------------------------------------------
class QuantView:
    _pyvc_sym = True
    """[elt(x) for x in src if cond(x)] over a symbolic collection `src` (ObjSeq)."""

    def __init__(self, src, elt_fn, cond_fn):
        self.src = src
        self.elt_fn = elt_fn
        self.cond_fn = cond_fn

    def instance(self, ip, idx):
        x = self.src.at(ip, idx)
        c = self.cond_fn(x)
        ct = ip.truth(c)
        ct = z3.BoolVal(ct) if isinstance(ct, bool) else ct
        return x, z3.And(self.src.inrange(idx), ct), (lambda: self.elt_fn(x))

    def nonempty(self, ip):
        return self

    def truth_fork(self, ip):
        """`if view:` -> fork: some index satisfies, or none does"""
        if getattr(self, 'known', None) is not None:
            return self.known
        k = z3.Int(fresh_name('wit'))
        x, c, e = self.instance(ip, k)
        some = ip.ctx.choose(2, 'view-nonempty')
        if some == 0:
            ip.ctx.assume(c)
            self.known = True
            return True
        self.known = False
        i = z3.Int(fresh_name('qi'))
        x2, c2, e2 = self.instance(ip, i)
        ip.ctx.assume(z3.ForAll([i], z3.Not(c2)))
        return False

    def max_(self, ip, is_max, node):
        i = z3.Int(fresh_name('qi'))
        x, c, e = self.instance(ip, i)
        ev = e()
        ev = unopt_noraise(ev)
        r = z3.Int(fresh_name('max' if is_max else 'min'))
        k = z3.Int(fresh_name('wit'))
        xk, ck, ek = self.instance(ip, k)
        evk = unopt_noraise(ek())
        # non-empty is the caller's obligation: fork
        known = getattr(self, 'known', None)
        some = (0 if known else 1) if known is not None else ip.ctx.choose(2, 'max-nonempty')
        if some == 1:
            ip.ctx.assume(z3.ForAll([i], z3.Not(c)))
            raise Raised(ValueError("max() arg is an empty sequence"))
        ip.ctx.assume(z3.ForAll([i], z3.Implies(c, (lift(ev) <= r) if is_max else (lift(ev) >= r))))
        ip.ctx.assume(z3.And(ck, lift(evk) == r))
        return SV(r)

    def all_(self, ip):
        i = z3.Int(fresh_name('qi'))
        x, c, e = self.instance(ip, i)
        t = ip.truth(e())
        t = z3.BoolVal(t) if isinstance(t, bool) else t
        return wrap(z3.ForAll([i], z3.Implies(c, t)))

    def any_(self, ip):
        i = z3.Int(fresh_name('qi'))
        x, c, e = self.instance(ip, i)
        t = ip.truth(e())
        t = z3.BoolVal(t) if isinstance(t, bool) else t
        return wrap(z3.Exists([i], z3.And(c, t)))


def unopt_noraise(v):
    if isinstance(v, SOpt):
        return v.v
    return v


class ObjSeq:
    _pyvc_sym = True
    """A symbolic sequence of objects: length + per-field functions of the index.
    `maker(ip, idx)` returns the element value (an Obj with symbolic fields) at z3 index idx."""

    def __init__(self, length, maker, tag='seq'):
        self.length = length
        self.maker = maker
        self.tag = tag

    def inrange(self, idx):
        return z3.And(idx >= 0, idx < lift(self.length))

    def at(self, ip, idx):
        return self.maker(ip, idx)


def symbolic_comprehension(ip, node, frame):
    """list comprehension / generator over an ObjSeq-backed object -> QuantView"""
    if len(node.generators) != 1:
        return NotImplemented
    g = node.generators[0]
    # cheap syntactic pre-check: evaluate iterable
    if not isinstance(g.target, ast.Name):
        return NotImplemented
    try_names = ip.hooks.get('objseq_names')
    if not try_names:
        return NotImplemented
    itv = ip.eval(g.iter, frame)
    src = None
    if isinstance(itv, ObjSeq):
        src = itv
    elif isinstance(itv, GhostList):
        src = itv.seq
    elif isinstance(itv, Obj) and isinstance(itv.fields.get('_elements'), GhostList):
        src = itv.fields['_elements'].seq
    elif isinstance(itv, Obj) and isinstance(itv.fields.get('_elements'), ObjSeq):
        src = itv.fields['_elements']
    if src is None:
        # fall back to concrete path, but we already evaluated iter: emulate
        out = []
        f = ip.comp_frame(frame)
        for x in ip.iterate(itv, g):
            ip.assign(g.target, x, f)
            if all(ip.decide(ip.eval(c, f)) for c in g.ifs):
                out.append(ip.eval(node.elt, f))
        return out

    def mk(fn_nodes):
        def run(x):
            f = ip.comp_frame(frame)
            f.locals[g.target.id] = x
            if isinstance(fn_nodes, list):
                ts = []
                ip.spec_depth += 1
                try:
                    for c in fn_nodes:
                        t = ip.truth(ip.eval(c, f))
                        ts.append(z3.BoolVal(t) if isinstance(t, bool) else t)
                finally:
                    ip.spec_depth -= 1
                return wrap(z3.And(*ts)) if ts else True
            ip.spec_depth += 1
            try:
                return ip.eval(fn_nodes, f)
            finally:
                ip.spec_depth -= 1
        return run
    return QuantView(src, mk(node.elt), mk(list(g.ifs)))


# ------------------------------------------------------------------------------------------
# loops with contracts
# ------------------------------------------------------------------------------------------
def assigned_names(stmts):
    names = []

    def visit(n):
        if isinstance(n, (ast.FunctionDef, ast.Lambda, ast.ClassDef)):
            return
        if isinstance(n, ast.Name) and isinstance(n.ctx, ast.Store):
            if n.id not in names:
                names.append(n.id)
        for c in ast.iter_child_nodes(n):
            visit(c)
    for s in stmts:
        visit(s)
    return names


def havoc_value(ip, name, v):
    if isinstance(v, bool):
        return mk_bool(name)
    if isinstance(v, int):
        return mk_int(name)
    if isinstance(v, str):
        return mk_str(name)
    if isinstance(v, SV):
        return SV(z3.Const(fresh_name(name), v.t.sort()))
    if isinstance(v, SOpt):
        return SOpt(z3.Bool(fresh_name(name + '_isnone')), havoc_value(ip, name, v.v))
    if isinstance(v, SymList):
        v.t = z3.Const(fresh_name(name), v.t.sort())
        return v
    if v is None:
        return None
    raise Unsupported(f"cannot havoc loop variable {name} of type {type(v).__name__}")


def eval_spec(ip, fn, frame, extra=None):
    """Evaluate a contract lambda (python function from a props module) with arguments taken by name from the
    frame locals / `old_<x>` entry values / extras."""
    clo = ip.to_closure(fn) if isinstance(fn, types.FunctionType) else fn
    a = clo.node.args
    names = [p.arg for p in a.args]
    vals = []
    for nm in names:
        if extra and nm in extra:
            vals.append(extra[nm])
        elif nm.startswith('old_') and nm[4:] in frame.entry:
            vals.append(frame.entry[nm[4:]])
        elif nm in frame.locals:
            vals.append(frame.locals[nm])
        else:
            f = frame.parent
            found = False
            while f is not None:
                if nm in f.locals:
                    vals.append(f.locals[nm])
                    found = True
                    break
                f = f.parent
            if not found:
                raise Unsupported(f"contract refers to unknown variable {nm!r}")
    ip.spec_depth += 1
    try:
        r = ip.call_closure(clo, vals, {})
    finally:
        ip.spec_depth -= 1
    t = ip.truth(r)
    return z3.BoolVal(t) if isinstance(t, bool) else t


def run_contract_loop(ip, node, frame, lc):
    from .interp import _Break, _Continue
    q = frame.qualname.replace('.<locals>', '')
    base = f"{q}/loop{lc.ordinal}"
    # 1. invariant holds on entry
    inv0 = eval_spec(ip, lc.invariant, frame)
    ip.ctx.oblige(base + '.inv.init', inv0, kind='loop')
    # 2. havoc
    names = assigned_names(node.body)
    for nm in names:
        if nm in frame.locals:
            frame.locals[nm] = havoc_value(ip, nm, frame.locals[nm])
    for nm in lc.havoc:
        v = frame.locals.get(nm)
        if isinstance(v, SymList):
            v.t = z3.Const(fresh_name(nm), v.t.sort())
    ip.ctx.assume(eval_spec(ip, lc.invariant, frame))
    which = ip.ctx.choose(2, 'loop')
    guard = ip.truth(ip.eval(node.test, frame))
    if which == 0:
        # exit path
        if isinstance(guard, bool):
            if guard:
                raise PathInfeasible()
        else:
            ip.ctx.assume(z3.Not(guard))
        ip.exec_block(node.orelse, frame)
        return
    if isinstance(guard, bool):
        if not guard:
            raise PathInfeasible()
    else:
        ip.ctx.assume(guard)
    dec0 = None
    if lc.decreases is not None:
        dec0 = eval_spec_value(ip, lc.decreases, frame)
    try:
        ip.exec_block(node.body, frame)
    except _Break:
        return        # continues after the loop with the current state
    except _Continue:
        pass
    inv1 = eval_spec(ip, lc.invariant, frame)
    ip.ctx.oblige(base + '.inv.preserve', inv1, kind='loop')
    if dec0 is not None:
        dec1 = eval_spec_value(ip, lc.decreases, frame)
        ip.ctx.oblige(base + '.decreases', z3.And(lift(dec0) >= 0, lift(dec1) < lift(dec0)), kind='loop')
    raise PathEnd()


def eval_spec_value(ip, fn, frame, extra=None):
    clo = ip.to_closure(fn)
    names = [p.arg for p in clo.node.args.args]
    vals = []
    for nm in names:
        if extra and nm in extra:
            vals.append(extra[nm])
        elif nm.startswith('old_') and nm[4:] in frame.entry:
            vals.append(frame.entry[nm[4:]])
        else:
            vals.append(frame.locals[nm])
    ip.spec_depth += 1
    try:
        return ip.call_closure(clo, vals, {})
    finally:
        ip.spec_depth -= 1


def run_contract_for(ip, node, frame, lc):
    raise Unsupported("for-loop contracts not implemented yet")


# ------------------------------------------------------------------------------------------
# ghost list: a python list of objects under contract (list.sort / reverse are logged, not executed)
# ------------------------------------------------------------------------------------------
class GhostList:
    _pyvc_sym = True
    """Stands for a builtin `list` of objects of unbounded symbolic length (content: ObjSeq).
    list.sort(key=, reverse=) and list.reverse() are *builtin contracts* (trusted base: a stable permutation ordered
    by the key; reverse=True keeps the original order of equal keys): the call is recorded in .log."""

    def __init__(self, seq, tag='elements'):
        self.seq = seq
        self.log = []
        self.tag = tag

    def concretize(self, model):
        return self.seq.concretize(model) if hasattr(self.seq, 'concretize') else '<ghost list>'


def method_ghostlist(ip, recv, name, args, kwargs, node):
    if name == 'sort':
        key = kwargs.get('key', args[0] if args else None)
        rev = kwargs.get('reverse', False)
        recv.log.append(('sort', key, rev))
        return None
    if name == 'reverse':
        recv.log.append(('reverse',))
        return None
    if name == '__len__':
        return recv.seq.length
    if name == '__iter__':
        return recv.seq
    raise Unsupported(f"ghost list method {name}")


_orig_call_method = call_method


def call_method(ip, recv, name, args, kwargs, node):     # noqa: F811
    if isinstance(recv, GhostList):
        return method_ghostlist(ip, recv, name, args, kwargs, node)
    return _orig_call_method(ip, recv, name, args, kwargs, node)


class LazyPick:
    """table[key] for a dict of functions and a symbolic key that is known to be one of the keys."""
    _pyvc_sym = True

    def __init__(self, table, key):
        self.table = table
        self.key = key

    def resolve(self, ip):
        k = concretize(ip, self.key, list(self.table.keys()), None, KeyError)
        return self.table[k]


# ------------------------------------------------------------------------------------------
# dict / set with symbolic keys (association lists; key comparison forks)
# ------------------------------------------------------------------------------------------
class ADict(dict):
    """A dict created by interpreted code.  Entries live in `entries` (insertion ordered list of [key, value]); keys may
    be symbolic scalars, in which case look-ups compare with == and fork.  The native storage mirrors only the
    concrete-key entries (so that natively executed code such as len()/iteration on all-concrete dicts still works)."""
    _pyvc_sym = False

    def __init__(self, *a, **k):
        super().__init__()
        self.entries = []
        for kk, vv in dict(*a, **k).items():
            self.entries.append([kk, vv])
            dict.__setitem__(self, kk, vv)

    def has_symbolic_key(self):
        return any(isinstance(k, (SV, SOpt)) for k, _ in self.entries)


def adict_find(ip, d, key):
    """index of the entry whose key equals `key` (forks on symbolic comparisons) or None"""
    for n, (k, _) in enumerate(d.entries):
        r = eq(ip, k, key)
        if isinstance(r, bool):
            if r:
                return n
            continue
        if ip.ctx.branch(r):
            return n
    return None


def adict_set(ip, d, key, val):
    n = adict_find(ip, d, key)
    if n is None:
        d.entries.append([key, val])
    else:
        d.entries[n][1] = val
    if not isinstance(key, (SV, SOpt)) and not has_sym(key):
        try:
            dict.__setitem__(d, key, val)
        except TypeError as e:
            raise Raised(e)


def method_adict(ip, d, name, args, kwargs, node):
    if name == 'get':
        n = adict_find(ip, d, args[0])
        if n is None:
            return args[1] if len(args) > 1 else kwargs.get('default')
        return d.entries[n][1]
    if name == 'setdefault':
        n = adict_find(ip, d, args[0])
        if n is None:
            v = args[1] if len(args) > 1 else None
            adict_set(ip, d, args[0], v)
            return v
        return d.entries[n][1]
    if name == 'items':
        return [(k, v) for k, v in d.entries]
    if name == 'keys':
        return [k for k, _ in d.entries]
    if name == 'values':
        return [v for _, v in d.entries]
    if name == 'copy':
        nd = ADict()
        for k, v in d.entries:
            nd.entries.append([k, v])
            if not isinstance(k, (SV, SOpt)):
                dict.__setitem__(nd, k, v)
        return nd
    if name == 'update':
        src = args[0] if args else {}
        items = src.entries if isinstance(src, ADict) else list(src.items())
        for k, v in items:
            adict_set(ip, d, k, v)
        for k, v in kwargs.items():
            adict_set(ip, d, k, v)
        return None
    if name == 'pop':
        n = adict_find(ip, d, args[0])
        if n is None:
            if len(args) > 1:
                return args[1]
            raise Raised(KeyError(repr(args[0])))
        k, v = d.entries.pop(n)
        if not isinstance(k, (SV, SOpt)):
            dict.pop(d, k, None)
        return v
    if name == 'clear':
        d.entries.clear()
        dict.clear(d)
        return None
    if name == '__len__':
        return len(d.entries)
    if name == '__contains__':
        return adict_find(ip, d, args[0]) is not None
    raise Unsupported(f"dict.{name} on interpreted dict")


class SymSet:
    """A set created by interpreted code whose members may be objects / symbolic scalars (membership by ==, forks)."""
    _pyvc_sym = True

    def __init__(self, items=()):
        self.items = list(items)


def symset_contains(ip, s, x):
    for m in s.items:
        r = eq(ip, m, x)
        if isinstance(r, bool):
            if r:
                return True
            continue
        if ip.ctx.branch(r):
            return True
    return False


def method_symset(ip, s, name, args, kwargs, node):
    if name == 'add':
        if not symset_contains(ip, s, args[0]):
            s.items.append(args[0])
        return None
    if name == '__contains__':
        return symset_contains(ip, s, args[0])
    if name == '__len__':
        return len(s.items)
    if name in ('update',):
        for x in ip.iterate(args[0], node):
            if not symset_contains(ip, s, x):
                s.items.append(x)
        return None
    if name == 'discard' or name == 'remove':
        for n, m in enumerate(s.items):
            r = eq(ip, m, args[0])
            if (isinstance(r, bool) and r) or (not isinstance(r, bool) and ip.ctx.branch(r)):
                del s.items[n]
                return None
        if name == 'remove':
            raise Raised(KeyError(repr(args[0])))
        return None
    raise Unsupported(f"set.{name} on interpreted set")


_orig_call_method2 = call_method


def call_method(ip, recv, name, args, kwargs, node):     # noqa: F811
    if isinstance(recv, ADict):
        return method_adict(ip, recv, name, args, kwargs, node)
    if isinstance(recv, SymSet):
        return method_symset(ip, recv, name, args, kwargs, node)
    return _orig_call_method2(ip, recv, name, args, kwargs, node)


_orig_subscript = subscript
_orig_store_subscript = store_subscript
_orig_contains = contains


def subscript(ip, obj, idx, node):       # noqa: F811
    if (getattr(type(obj), '__module__', '') or '').startswith('props') and hasattr(type(obj), '__getitem__'):
        return ip.call(type(obj).__getitem__, [obj, idx], {})      # ghost object of the contract layer: interpreted
    if isinstance(obj, ADict):
        n = adict_find(ip, obj, idx)
        if n is None:
            raise Raised(KeyError(repr(idx)))
        return obj.entries[n][1]
    return _orig_subscript(ip, obj, idx, node)


def store_subscript(ip, obj, idx, val, node):       # noqa: F811
    if isinstance(obj, ADict):
        adict_set(ip, obj, idx, val)
        return
    return _orig_store_subscript(ip, obj, idx, val, node)


def contains(ip, container, x, node):       # noqa: F811
    if isinstance(container, ADict):
        return adict_find(ip, container, x) is not None
    if isinstance(container, SymSet):
        return symset_contains(ip, container, x)
    return _orig_contains(ip, container, x, node)


@model(set)
def _set2(ip, args, kwargs, node):
    if not args:
        return SymSet()
    items = list(ip.iterate(args[0], node))
    if has_sym(items):
        s = SymSet()
        for x in items:
            if not symset_contains(ip, s, x):
                s.items.append(x)
        return s
    try:
        return set(items)
    except TypeError as e:
        raise Raised(e)


@model(dict)
def _dict2(ip, args, kwargs, node):
    d = ADict()
    if args:
        src = args[0]
        items = src.entries if isinstance(src, ADict) else (list(src.items()) if isinstance(src, dict) else [tuple(kv) for kv in ip.iterate(src, node)])
        for k, v in items:
            adict_set(ip, d, k, v)
    for k, v in kwargs.items():
        adict_set(ip, d, k, v)
    return d


def merge_values(c, a, b):
    """value of `a if c else b` for a symbolic condition c, without forking (spec mode)"""
    if a is b:
        return a
    if isinstance(a, (tuple, list)) and isinstance(b, (tuple, list)) and type(a) is type(b) and len(a) == len(b):
        out = [merge_values(c, x, y) for x, y in zip(a, b)]
        if any(o is NotImplemented for o in out):
            return NotImplemented
        return type(a)(out)

    def split(v):
        if v is None:
            return (z3.BoolVal(True), None)
        if isinstance(v, SOpt):
            return (v.n, v.v.t)
        if isinstance(v, (SV, bool, int, str)):
            return (z3.BoolVal(False), lift(v))
        return None
    sa, sb = split(a), split(b)
    if sa is None or sb is None:
        return NotImplemented
    pa, pb = sa[1], sb[1]
    if pa is None and pb is None:
        return None
    if pa is None:
        pa = pb
    if pb is None:
        pb = pa
    if pa.sort() != pb.sort():
        return NotImplemented
    n = z3.simplify(z3.If(c, sa[0], sb[0]))
    v = z3.simplify(z3.If(c, pa, pb))
    if z3.is_false(n):
        return wrap(v)
    if z3.is_true(n):
        return None
    return SOpt(n, SV(v))
