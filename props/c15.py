"""C15 — results depend only on text and settings, not on what ran before.

Obligations: (1) a package-wide scan of every store to module-level or class-level state, of memoising decorators, of mutable
default arguments and of defaults captured from MasterConfig at definition time, against an allow-list with a reason per entry;
(2) contracts on the allow-listed state: the TRS cache (transparent for every cache content that satisfies its invariant, the
invariant is preserved, the public converter never hands out a cached dict), the Tract counter (monotone), defaults read at
call time (construct_trs; proved in C12's contracts for MasterConfig made symbolic).
"""
import ast
import os

from pyvc.api import Unit, Int, Bool, Str, Opt, OneOf, Const, Choice, ObjT, Contract, FixedList
from pyvc.spec import implies, iff, in_re

ASSUMPTIONS = [
    "C15: trs_to_dict is abstracted as a deterministic function of its argument in the cache units (its own contract is C12); "
    "histories are additionally replayed in fresh subprocesses by the bounded tier",
]

# every store to process-wide state that the package is allowed to perform, with the reason it cannot influence results
ALLOWED_GLOBAL_STORES = {
    ('pytrs/parser/tract/tract.py', 'Tract', '_Tract__UID'): 'creation counter; only its order is observable (sort key i)',
    ('pytrs/parser/trs/trs.py', 'TRS', '_TRS__CACHE'): 'memo of trs_to_dict, transparent (units below); _clear_cache rebinds it',
    ('pytrs/parser/trs/trs.py', 'TRS', '_TRS_UNPACKER_REGEX'): 'documented experimental TRS._recompile only',
    ('pytrs/parser/trs/trs.py', 'MasterConfig', '_ERR_TWPRGE'): 'documented experimental TRS._recompile only',
    ('pytrs/parser/trs/trs.py', 'MasterConfig', '_ERR_TRS'): 'documented experimental TRS._recompile only',
    ('pytrs/parser/trs/trs.py', 'MasterConfig', '_UNDEF_TWPRGE'): 'documented experimental TRS._recompile only',
    ('pytrs/parser/trs/trs.py', 'MasterConfig', '_UNDEF_TRS'): 'documented experimental TRS._recompile only',
}
ALLOWED_DEFINITION_TIME_DEFAULTS = {
    # PLSSParser / PLSSPreprocessor are internal classes that always receive explicit values (possibly None, which is then
    # resolved from MasterConfig inside plss_preprocess at call time) from PLSSDesc.parse / preprocess (C13 lock-down obligations)
    ('pytrs/parser/plssdesc/plss_parse.py', 'PLSSParser.__init__', 'default_ns'),
    ('pytrs/parser/plssdesc/plss_parse.py', 'PLSSParser.__init__', 'default_ew'),
    ('pytrs/parser/plssdesc/plss_preprocess.py', 'PLSSPreprocessor.__init__', 'default_ns'),
    ('pytrs/parser/plssdesc/plss_preprocess.py', 'PLSSPreprocessor.__init__', 'default_ew'),
}


def scan_package(root):
    """returns (stores, memo_decorators, mutable_defaults, captured_defaults) found in the package source"""
    stores, memos, mutables, captured = [], [], [], []
    pkg = os.path.join(root, 'pytrs')
    for dirpath, _, files in os.walk(pkg):
        if 'interface_tools' in dirpath:
            continue        # tkinter GUI helpers: not part of parsing
        for fn in files:
            if not fn.endswith('.py'):
                continue
            path = os.path.join(dirpath, fn)
            rel = os.path.relpath(path, root)
            tree = ast.parse(open(path, encoding='utf-8').read())
            class_names = {n.name for n in ast.walk(tree) if isinstance(n, ast.ClassDef)} | {'MasterConfig', 'MC', 'cls', 'TRS', 'Tract', 'Config'}

            def visit(node, cls, func):
                for c in ast.iter_child_nodes(node):
                    ncls, nfunc = cls, func
                    if isinstance(c, ast.ClassDef):
                        ncls, nfunc = c.name, None
                    elif isinstance(c, (ast.FunctionDef, ast.AsyncFunctionDef)):
                        nfunc = (func + '.' if func else (cls + '.' if cls else '')) + c.name
                        for d in c.decorator_list:
                            txt = ast.unparse(d)
                            if any(k in txt for k in ('lru_cache', 'functools.cache', 'cache(', 'memo')) or txt in ('cache',):
                                memos.append((rel, nfunc, txt))
                        defaults = list(c.args.defaults) + [d for d in c.args.kw_defaults if d is not None]
                        names = [a.arg for a in c.args.args][-len(c.args.defaults):] if c.args.defaults else []
                        names += [a.arg for a, d in zip(c.args.kwonlyargs, c.args.kw_defaults) if d is not None]
                        for nm, d in zip(names, defaults):
                            if isinstance(d, (ast.List, ast.Dict, ast.Set)) or (isinstance(d, ast.Call) and ast.unparse(d.func) in ('list', 'dict', 'set')):
                                mutables.append((rel, nfunc, nm))
                            if 'MasterConfig.default' in ast.unparse(d) or 'MC.default' in ast.unparse(d):
                                captured.append((rel, nfunc, nm))
                    if func is not None or cls is not None:
                        targets = []
                        if isinstance(c, ast.Assign):
                            targets = c.targets
                        elif isinstance(c, (ast.AugAssign, ast.AnnAssign)):
                            targets = [c.target]
                        for t in targets:
                            # Cls.attr = ... / cls.attr = ... / Cls.attr[...] = ...
                            base = t
                            while isinstance(base, ast.Subscript):
                                base = base.value
                            if isinstance(base, ast.Attribute) and isinstance(base.value, ast.Name) and func is not None:
                                owner = base.value.id
                                if owner in class_names and owner != 'self':
                                    attr = base.attr
                                    if attr.startswith('__') and not attr.endswith('__') and cls:
                                        attr = f"_{cls}{attr}"
                                    real_owner = cls if owner == 'cls' else ('MasterConfig' if owner == 'MC' else owner)
                                    stores.append((rel, real_owner, attr))
                        if isinstance(c, ast.Global):
                            for nm in c.names:
                                stores.append((rel, '<module>', nm))
                    visit(c, ncls, nfunc)
            visit(tree, None, None)
    return sorted(set(stores)), sorted(set(memos)), sorted(set(mutables)), sorted(set(captured))


MUTATORS = {'append', 'insert', 'extend', 'pop', 'remove', 'clear', 'update', 'sort', 'reverse', 'add', 'discard', 'setdefault',
            'popitem', '__setitem__', '__delitem__', 'appendleft', 'popleft'}


def scan_shared_containers(root):
    """module-level (or class-level) names bound to a mutable container (list / dict / set display or constructor call) that a function
    mutates in place — directly or through a local alias `v = NAME` — are process-wide state just like a store to a global"""
    found = []
    pkg = os.path.join(root, 'pytrs')
    for dirpath, _, files in os.walk(pkg):
        if 'interface_tools' in dirpath:
            continue
        for fn in files:
            if not fn.endswith('.py'):
                continue
            path = os.path.join(dirpath, fn)
            rel = os.path.relpath(path, root)
            tree = ast.parse(open(path, encoding='utf-8').read())

            def is_mutable(v):
                return (isinstance(v, (ast.List, ast.Dict, ast.Set, ast.ListComp, ast.DictComp, ast.SetComp))
                        or (isinstance(v, ast.Call) and ast.unparse(v.func) in ('list', 'dict', 'set', 'collections.deque', 'deque',
                                                                                 'collections.defaultdict', 'defaultdict')))
            shared = set()
            for node in tree.body:
                holders = [node] + ([n for n in node.body] if isinstance(node, ast.ClassDef) else [])
                for n in holders:
                    if isinstance(n, ast.Assign) and is_mutable(n.value):
                        for t in n.targets:
                            if isinstance(t, ast.Name):
                                shared.add(t.id)
                    elif isinstance(n, ast.AnnAssign) and n.value is not None and is_mutable(n.value) and isinstance(n.target, ast.Name):
                        shared.add(n.target.id)
            if not shared:
                continue
            for f in ast.walk(tree):
                if not isinstance(f, (ast.FunctionDef, ast.AsyncFunctionDef)):
                    continue
                alias = {}
                for n in ast.walk(f):
                    if isinstance(n, ast.Assign) and len(n.targets) == 1 and isinstance(n.targets[0], ast.Name):
                        v = n.value
                        src = v.id if isinstance(v, ast.Name) else (v.attr if isinstance(v, ast.Attribute) else None)
                        if src in shared:
                            alias[n.targets[0].id] = src

                def shared_of(e):
                    while isinstance(e, ast.Subscript):
                        e = e.value
                    nm = e.id if isinstance(e, ast.Name) else (e.attr if isinstance(e, ast.Attribute) and isinstance(e.value, ast.Name)
                                                               and e.value.id in ('cls', 'self') else None)
                    if nm in shared and not (isinstance(e, ast.Name) and nm in {a.arg for a in f.args.args + f.args.kwonlyargs}):
                        return nm
                    return alias.get(nm) if isinstance(e, ast.Name) else None
                for n in ast.walk(f):
                    if isinstance(n, ast.Call) and isinstance(n.func, ast.Attribute) and n.func.attr in MUTATORS:
                        nm = shared_of(n.func.value)
                        if nm:
                            found.append((rel, f.name, nm, n.func.attr))
                    elif isinstance(n, (ast.Assign, ast.AugAssign, ast.Delete)):
                        tg = n.targets if isinstance(n, (ast.Assign, ast.Delete)) else [n.target]
                        for t in tg:
                            if isinstance(t, ast.Subscript) or isinstance(n, ast.AugAssign):
                                nm = shared_of(t)
                                if nm:
                                    found.append((rel, f.name, nm, 'item store'))
    return sorted(set(found))


def scan_defaults_frozen_in_objects(root):
    """`self.x = MasterConfig.default_ns` (directly or through a local that was read from MasterConfig in the same function) freezes
    the process-wide default into an object at that moment; later calls on the object then ignore the default in force"""
    found = []
    pkg = os.path.join(root, 'pytrs')
    for dirpath, _, files in os.walk(pkg):
        if 'interface_tools' in dirpath:
            continue
        for fn in files:
            if not fn.endswith('.py'):
                continue
            path = os.path.join(dirpath, fn)
            rel = os.path.relpath(path, root)
            tree = ast.parse(open(path, encoding='utf-8').read())
            for cls in [n for n in ast.walk(tree) if isinstance(n, ast.ClassDef)]:
                if cls.name in ('MasterConfig', 'Config'):
                    continue            # the configuration classes themselves hold settings by design
                for f in [n for n in ast.walk(cls) if isinstance(n, (ast.FunctionDef, ast.AsyncFunctionDef))]:
                    tainted = set()
                    for n in ast.walk(f):
                        if isinstance(n, ast.Assign):
                            src = ast.unparse(n.value)
                            from_mc = ('MasterConfig.default_' in src or 'MC.default_' in src
                                       or any(isinstance(x, ast.Name) and x.id in tainted for x in ast.walk(n.value)))
                            for t in n.targets:
                                if isinstance(t, ast.Name) and ('MasterConfig.default_' in src or 'MC.default_' in src):
                                    tainted.add(t.id)
                                if from_mc and isinstance(t, ast.Attribute) and isinstance(t.value, ast.Name) and t.value.id == 'self':
                                    found.append((rel, f'{cls.name}.{f.name}', t.attr))
    return sorted(set(found))


def scan_result():
    import pytrs
    root = os.path.dirname(os.path.dirname(os.path.abspath(pytrs.__file__)))
    return scan_package(root)


def scan_ok():
    """the frame obligation: nothing outside the allow-lists"""
    stores, memos, mutables, captured = scan_result()
    extra_stores = [s for s in stores if s not in ALLOWED_GLOBAL_STORES]
    extra_captured = [c for c in captured if c not in ALLOWED_DEFINITION_TIME_DEFAULTS]
    import pytrs
    root = os.path.dirname(os.path.dirname(os.path.abspath(pytrs.__file__)))
    return (extra_stores, memos, mutables, extra_captured, scan_shared_containers(root), scan_defaults_frozen_in_objects(root))


scan_ok.__pyvc_native__ = True


def _scan_unit():
    return Unit(name='C15/package[global-state frame]', prop='C15', target='props.c15:scan_ok', params={},
                ensures=[('no_store_to_process_wide_state_outside_the_allow_list', lambda result: len(result[0]) == 0),
                         ('no_memoising_decorator', lambda result: len(result[1]) == 0),
                         ('no_mutable_default_argument', lambda result: len(result[2]) == 0),
                         ('no_default_captured_from_MasterConfig_at_definition_time', lambda result: len(result[3]) == 0),
                         ('no_in_place_mutation_of_a_module_or_class_level_container', lambda result: len(result[4]) == 0),
                         ('no_MasterConfig_default_frozen_into_an_object', lambda result: len(result[5]) == 0)],
                replay=('props.c15:replay_scan', {}))


def replay_scan(model):
    r = scan_ok()
    return {'confirmed': any(len(x) > 0 for x in r), 'detail': f"stores={r[0]} memo={r[1]} mutable_defaults={r[2]} captured={r[3]} shared_containers_mutated={r[4]} defaults_frozen={r[5]}"}


# ---- the TRS cache --------------------------------------------------------------------------------------------------------------

def _dict_of(ip, s):
    """abstraction of trs_to_dict(s): a fresh dict whose fields are functions of the string"""
    from props.plss_stubs import g_str
    from pyvc.models import ADict
    d = ADict()
    for k in ('trs', 'twp', 'rge', 'sec'):
        from pyvc import models
        models.adict_set(ip, d, k, g_str('D_' + k, s))
    return d


def _cache_setup(ip, env):
    from pytrs.parser.trs.trs import TRS
    from pyvc import models
    from pyvc.models import ADict
    # trs_to_dict: deterministic, returns a fresh dict each time
    models.register_model(TRS.trs_to_dict, lambda ip_, a, k, n: _dict_of(ip_, a[0]))
    cache = ADict()
    if env['warm']:
        d0 = _dict_of(ip, env['k0'])
        models.adict_set(ip, cache, env['k0'], d0)          # invariant: CACHE[k] == trs_to_dict(k)
        ip.hooks[('cached_dict',)] = d0
    ip.overlay[(id(TRS), '_TRS__CACHE')] = cache
    ip.overlay[(id(TRS), '_USE_CACHE')] = env['use_cache']
    ip.hooks[('cache',)] = cache


def new_trs(s):
    from pytrs import TRS
    t = TRS(s)
    return (t.trs, t.twp, t.rge, t.sec)


def spec_fields(s):
    from props.plss_stubs import g_str
    return (g_str('D_trs', s), g_str('D_twp', s), g_str('D_rge', s), g_str('D_sec', s))


def spec_fields_native(s):
    return spec_fields(s)


spec_fields.__pyvc_native__ = True


def cache_invariant(hooks_):
    cache = hooks_[('cache',)]
    from props.plss_stubs import g_str
    return all([v['trs'] == g_str('D_trs', k) and v['twp'] == g_str('D_twp', k) for k, v in cache.items()])


def _cache_units():
    return [
        Unit(name='C15/TRS.__init__[cache is transparent and keeps its invariant]', prop='C15', target='props.c15:new_trs',
             params={'s': Str()}, ghost={'k0': Str(), 'warm': Choice(Const(False), Const(True)), 'use_cache': Bool()},
             requires=lambda s: s != '', setup_params=_cache_setup,
             ensures=[('same_as_uncached', lambda s, result: result == spec_fields(s)),
                      ('invariant_preserved', lambda hooks_: cache_invariant(hooks_))]),
    ]


def public_to_dict(s):
    from pytrs import TRS
    return TRS.trs_to_dict(s)


def _noescape_setup(ip, env):
    """real trs_to_dict, run against a cache that already holds an entry for the very string asked about"""
    from pytrs.parser.trs.trs import TRS
    from pyvc.models import ADict
    from pyvc import models
    cache = ADict()
    d0 = ADict()
    for k, v in (('trs', env['s']), ('twp', 'XXXz'), ('rge', 'XXXz'), ('sec', 'XX')):
        models.adict_set(ip, d0, k, v)
    models.adict_set(ip, cache, env['s'], d0)
    ip.overlay[(id(TRS), '_TRS__CACHE')] = cache
    ip.overlay[(id(TRS), '_USE_CACHE')] = True
    ip.hooks[('cached_dict',)] = d0


def _noescape_units():
    return [Unit(name='C15/TRS.trs_to_dict[never hands out a cached dict]', prop='C15', target='props.c15:public_to_dict',
                 params={'s': Choice(Const('154n97w14'), Const('garbage'), Const('XXXz97w01'))},
                 setup_params=_noescape_setup,
                 ensures=[('fresh_dict', lambda result, hooks_: result is not hooks_[('cached_dict',)])])]


def tract_uids(a, b):
    from pytrs import Tract
    t1 = Tract(a, trs='154n97w14')
    t2 = Tract(b, trs='154n97w15')
    return (t1._Tract__uid, t2._Tract__uid)


def _uid_units():
    def setup(ip, env):
        from pytrs.parser.tract.tract import Tract
        from props import c14
        ip.overlay[(id(Tract), '_Tract__UID')] = env['start']
        c14._install_stubs(ip, env)
    return [Unit(name='C15/Tract.__init__[creation counter is strictly increasing whatever its start]', prop='C15',
                 target='props.c15:tract_uids', params={'a': Const('NE/4'), 'b': Const('W/2')}, ghost={'start': Int()},
                 setup_params=setup,
                 ensures=[('later_tract_has_larger_uid', lambda result: result[0] < result[1])])]


def units():
    return [_scan_unit()] + _cache_units() + _noescape_units() + _uid_units()


# ======================================================================================================================
# bounded stand-in: probe after scripted histories vs. the same probe in a fresh interpreter
# ======================================================================================================================
PROBE = r'''
import json, sys, warnings
warnings.simplefilter('ignore')
import pytrs
from pytrs import TRS, Tract, PLSSDesc, MasterConfig
def probe():
    out = {}
    d = PLSSDesc('T154-R97 Sec 14: NE/4, Lots 1 - 2, Sec 15: N/2SW/4; Township 7 North, Range 2 West Sec 1: ALL', config='parse_qq')
    out['desc'] = [(t.trs, t.desc, t.lots, t.qqs, t.w_flags, t.e_flags, t.twp, t.rge, t.sec_num) for t in d.tracts] + [d.w_flags, d.e_flags, d.pp_desc]
    o = PLSSDesc('Township lS4 North, Range 97 West, Section 14: NE/4; T1o4N-R9|W Sec 1: ALL')     # OCR look-alikes, ocr_scrub off
    out['ocr_off'] = [(t.trs, t.desc) for t in o.tracts] + [o.e_flags, o.pp_desc]
    kept = globals().get('KEEP') or [Tract('NE/4'), PLSSDesc('T154-R97 Sec 14: NE/4', wait_to_parse=True)]      # objects that lived through the history
    kept[0].set_twprgesec(154, 97, 14)
    out['kept'] = [kept[0].trs, [x.trs for x in kept[1].parse(commit=False)]]
    t = Tract('N/2 of Lot 4, NE', trs='154n97w14', parse_qq=True, config='clean_qq')
    out['tract'] = [t.trs, t.lots, t.qqs, t.twp_num, t.rge_ew]
    out['trs'] = [(x.trs, x.twp, x.twp_num, x.rge_ew, x.sec_num, x.is_error(), x.is_undef()) for x in
                  (TRS('154n97w14'), TRS('XXXz97w01'), TRS(''), TRS('garbage'), TRS.from_twprgesec(154, 97, 14), TRS.from_twprgesec('7', '2e', None))]
    out['construct'] = [TRS.construct_trs(154, 97, 14), TRS.construct_trs('12', '3', 1, default_ns='s'), pytrs.find_twprge('T154-R97 and 154N-97W', preprocess=True)]
    out['dict'] = pytrs.trs_to_dict('154n97w14')
    return out
'''

HISTORIES = {
    'nothing': '',
    'other descriptions parsed': "PLSSDesc('T1N-R2E Sec 3: Lot 1, Lot 1, S/2', config='parse_qq,s,e'); Tract('NE', trs='1n2e03', config='clean_qq,qq_depth.3', parse_qq=True); [TRS(s) for s in ('154n97w14','XXXz97w01','garbage','')]",
    'MasterConfig toggled and restored': "MasterConfig.default_ns='s'; MasterConfig.default_ew='e'; PLSSDesc('T154-R97 Sec 14: NE/4'); TRS.from_twprgesec(154, 97, 14); TRS.construct_trs(154, 97, 14); TRS.construct_trs('12', '3', 1); pytrs.find_twprge('T154-R97', preprocess=True); Tract('x', trs=None); MasterConfig.default_ns='n'; MasterConfig.default_ew='w'",
    'cache cleared': "TRS('154n97w14'); TRS._clear_cache()",
    'cache disabled': "TRS._USE_CACHE = False; TRS._clear_cache(); TRS('154n97w14')",
    'cache pre-warmed': "[TRS(s) for s in ('154n97w14','154n97w15','7n2w01','XXXz97w01','___z___z__','garbage')]",
    'returned dicts mutated': "d1 = pytrs.trs_to_dict('154n97w14'); d1['twp'] = 'HACK'; d1['twp_num'] = -1; d1.clear(); d2 = TRS.trs_to_dict(TRS('154n97w14')); d2['sec_num'] = 99; x = TRS('154n97w14'); dd = TRS.trs_to_dict('154n97w14'); dd['trs'] = 'zzz'; l = PLSSDesc('T154-R97 Sec 14: NE/4').tracts.tracts_to_dict('trs','qqs'); l[0]['qqs'] = ['HACK']; f = pytrs.find_twprge('T154N-R97W'); f.append('x')",
    'returned lists mutated': "d = PLSSDesc('T154-R97 Sec 14: NE/4, Lots 1 - 2', config='parse_qq'); d.tracts[0].to_list('lots')[0].append('L99'); d.tracts.tracts_to_list('w_flags')[0][0].append('HACK'); pytrs.find_sec('Sec 1 - 3').append('99')",
    'objects created under other defaults': "MasterConfig.default_ns='s'; MasterConfig.default_ew='e'; a = PLSSDesc('T154-R97 Sec 14: NE/4', wait_to_parse=True); b = Tract('NE/4'); KEEP = [b, a]; MasterConfig.default_ns='n'; MasterConfig.default_ew='w'",
    'counter advanced': "[Tract('x') for _ in range(50)]",
    'optional modes used before': "PLSSDesc('Township lS4 North, Range 97 West, Section 14: NE/4', config='ocr_scrub'); PLSSDesc('T154N-R97W Sec 14 NE/4, Sec 15: W/2', config='segment,sec_colon_required,sec_within,clean_qq,parse_qq,qq_depth.3'); Tract('Lot 1(40.0), NE', config='clean_qq,suppress_lot_divs,break_halves', parse_qq=True)",
}


def _run_script(history, repo):
    import subprocess
    import sys
    code = PROBE + "\n" + history + "\nprint('@@' + json.dumps(probe(), default=str, sort_keys=True))\n"
    env = dict(os.environ, PYTHONPATH=repo, PYTHONDONTWRITEBYTECODE='1')
    r = subprocess.run([sys.executable, '-c', code], capture_output=True, text=True, env=env, timeout=120)
    for line in r.stdout.splitlines():
        if line.startswith('@@'):
            return line[2:]
    return 'ERROR: ' + (r.stderr or r.stdout)[-400:]


def _bounded_histories(tier, seed):
    import itertools
    import random
    import pytrs
    repo = os.path.dirname(os.path.dirname(os.path.abspath(pytrs.__file__)))
    rng = random.Random(seed)
    fresh = _run_script('', repo)
    ev = 0
    distinct = set()
    violations = []
    names = list(HISTORIES)
    combos = [(n,) for n in names] + [c for c in itertools.permutations(names[1:], 2)]
    if tier == 'quick':
        extra = combos[len(names):]
        rng.shuffle(extra)
        combos = combos[:len(names)] + extra[:14]
    for combo in combos:
        hist = '\n'.join(HISTORIES[n] for n in combo)
        got = _run_script(hist, repo)
        ev += 1
        distinct.add(combo)
        if got != fresh and len(violations) < 10:
            violations.append({'input': {'history': list(combo)}, 'observed': got[:600], 'expected': fresh[:600], 'replay_spec': None})
    return {'evaluations': ev, 'distinct_nontrivial': len(distinct), 'violations': violations,
            'samples': [{'history': list(combos[3]), 'probe_result_prefix': fresh[:200]}], 'exhaustive': False,
            'bound': f"{len(combos)} histories (each single history and ordered pairs{' (sampled)' if tier == 'quick' else ''}) of {len(names) - 1} kinds of prior activity",
            'rule': "probe parses after the history in one subprocess vs. the probe alone in a fresh subprocess; non-trivial = distinct history"}


def bounded(tier, seed):
    return [{'name': 'C15-bounded-histories', 'run': lambda: _bounded_histories(tier, seed)}]
