"""C01 — descriptions in the documented layouts parse back to exactly their tracts.

Under contract (real source): PLSSParser.__init__ / parse / construct_tracts, ChunkParser.parse_chunk / populate_markers /
get_next_sec / get_next_twprge / _parse_meaningful / _stage_new_tract (the marker walk), cleanup_desc, deduce_layout (over
abstract first-match positions), TractList.pretty_desc (bounded).  The regex layer is an abstraction contract: on a rendered
description the finders return exactly the rendered markers (checked by the bounded tier on ~10^4 renderings).
"""
from pyvc.api import Loop, Unit, Int, Bool, Str, Opt, OneOf, Const, Choice, ObjT, Contract, FixedList
from pyvc.spec import implies, iff, in_re
from props import plss_stubs

ASSUMPTIONS = [
    "C01: abstract match view -- for each layout two well-formed marker arrangements with symbolic text between the markers; that the "
    "real finders / preprocessor / deduce_layout produce this view on rendered descriptions is bounded-checked",
]

# well-formed views: (layout, twprge matches, section matches); positions are offsets into a text of >= 80 characters
VIEWS = {
    'TRS_desc, one group': ('TRS_desc', [('TWPRGE', '154n97w', 0, 10)],
                            [('SEC', ['14'], 11, 18), ('SEC', ['15', '16'], 30, 44)]),
    'TRS_desc, two groups': ('TRS_desc', [('TWPRGE', '154n97w', 0, 10), ('TWPRGE', '7s2e', 40, 50)],
                             [('SEC', ['14'], 11, 18), ('SEC', ['01'], 51, 58), ('SEC', ['02', '03', '04'], 66, 76)]),
    'desc_STR, one group': ('desc_STR', [('TWPRGE', '154n97w', 38, 48)],
                            [('SEC', ['14'], 8, 14), ('SEC', ['15'], 30, 36)]),
    'desc_STR, two groups': ('desc_STR', [('TWPRGE', '154n97w', 16, 26), ('TWPRGE', '7s2e', 56, 66)],
                             [('SEC', ['14'], 8, 14), ('SEC', ['01', '02'], 44, 54)]),
    'S_desc_TR, one group': ('S_desc_TR', [('TWPRGE', '154n97w', 50, 60)],
                             [('SEC', ['14'], 0, 7), ('SEC', ['15'], 24, 31)]),
    'S_desc_TR, two groups': ('S_desc_TR', [('TWPRGE', '154n97w', 20, 30), ('TWPRGE', '7s2e', 62, 72)],
                              [('SEC', ['14'], 0, 7), ('SEC', ['01'], 33, 40)]),
    'TR_desc_S, one group': ('TR_desc_S', [('TWPRGE', '154n97w', 0, 10)],
                             [('SEC', ['14'], 24, 30), ('SEC', ['15', '16'], 48, 60)]),
    'TR_desc_S, two groups': ('TR_desc_S', [('TWPRGE', '154n97w', 0, 10), ('TWPRGE', '7s2e', 32, 42)],
                              [('SEC', ['14'], 24, 30), ('SEC', ['01'], 62, 68)]),
}


VIEW_LEN = {'TRS_desc, one group': 80, 'TRS_desc, two groups': 90, 'desc_STR, one group': 48, 'desc_STR, two groups': 66,
            'S_desc_TR, one group': 60, 'S_desc_TR, two groups': 72, 'TR_desc_S, one group': 60, 'TR_desc_S, two groups': 68}


def expected_components(layout, twps, secs, n):
    """spec of the four documented layouts: which block belongs to which section group and Twp/Rge.
    returns [(sec list, twprge, block start, block end)] in reading order"""
    marks = sorted([(m[2], 'T0', m) for m in twps] + [(m[3], 'T1', m) for m in twps]
                   + [(m[2], 'S0', m) for m in secs] + [(m[3], 'S1', m) for m in secs])
    out = []
    if layout in ('TRS_desc', 'S_desc_TR'):
        # the block follows its section reference and runs to the next marker
        for s in secs:
            nxt = min([p for p, k, m in marks if p > s[3] - 1 and k in ('T0', 'S0') and p >= s[3]] + [n])
            if layout == 'TRS_desc':
                owner = [t for t in twps if t[3] <= s[2]][-1]
            else:
                owner = [t for t in twps if t[2] >= s[3]][0]
            out.append((s[1], owner[1], s[3], nxt))
    else:
        # the block precedes its section reference and starts at the previous marker
        for s in secs:
            prv = max([p for p, k, m in marks if k in ('T1', 'S1') and p <= s[2]] + [0])
            if layout == 'TR_desc_S':
                owner = [t for t in twps if t[3] <= s[2]][-1]
            else:
                owner = [t for t in twps if t[2] >= s[3]][0]
            out.append((s[1], owner[1], prv, s[2]))
    return out


expected_components.__pyvc_native__ = True


def cleaned(s):
    return plss_stubs.g_str('G_cleanup', s)


cleaned.__pyvc_native__ = True


def _setup(ip, env):
    from pyvc import models
    from pytrs.parser.plssdesc import plss_parse
    layout, tw, sc = VIEWS[env['view']]
    plss_stubs.install(ip, twprge_matches=tw, sec_matches=sc, layout_oracle=layout)
    models.register_model(plss_parse.cleanup_desc, plss_stubs.cleanup_model)


def make_parser(text):
    from pytrs.parser.plssdesc.plss_parse import PLSSParser
    return PLSSParser(text, handed_down_config='')


def tracts_as_expected(p, text, view):
    layout, tw, sc = VIEWS[view]
    exp = expected_components(layout, tw, sc, VIEW_LEN[view])
    want = [(tr + s, a, b) for secs, tr, a, b in exp for s in secs]
    ts = p.tracts._elements
    return (len(ts) == len(want)
            and all([ts[k].trs == want[k][0] and ts[k].desc == cleaned(text[want[k][1]:want[k][2]]) for k in range(len(want))])
            and p.layout == layout
            and len(p.e_flags) == 0)


def _walk_unit(view):
    return Unit(
        name=f'C01/marker walk[{view}]', prop='C01', target='props.c01:make_parser', params={'text': Str()},
        ghost={'view': Const(view), 'n': Const(VIEW_LEN[view])}, requires=lambda text, n: len(text) == n, setup_params=_setup,
        ensures=[('one_tract_per_named_section_in_reading_order', lambda text, view, result: tracts_as_expected(result, text, view))])


# ---- cleanup_desc ---------------------------------------------------------------------------------------------------------------
SEPS = r'[,;:\-–—\t\n .]'


def run_cleanup(text):
    from pytrs.parser.plssdesc.plss_parse import cleanup_desc
    return cleanup_desc(text)


def _cleanup_units():
    clean_block = Str(r'[a-z0-9/(][a-z0-9/ ()½¼#]{0,20}[0-9)½¼]')      # starts / ends with no separator or connective (lower case)
    return [
        Unit(name='C01/cleanup_desc[a clean block is returned verbatim]', prop='C01', target='props.c01:run_cleanup',
             params={'text': clean_block}, max_unroll=8,
             ensures=[('verbatim', lambda text, result: result == text)]),
        Unit(name='C01/cleanup_desc[separators and trailing connectives removed from a clean block]', prop='C01',
             target='props.c01:run_cleanup',
             params={'text': __import__('pyvc.api', fromlist=['Cat']).Cat(
                 Choice(Const(''), Const(' '), Const(': '), Const(', '), Const('\n')), clean_block,
                 Choice(Const(''), Const(','), Const(' of'), Const(', and'), Const(' in the'), Const(';\n'), Const(' all of'), Const(', all in the')))},
             ghost={}, max_unroll=24,
             ensures=[('only_the_block_remains', lambda text, result: in_re(result, r'[a-z0-9/(][a-z0-9/ ()½¼#]{0,20}[0-9)½¼]')
                       and result in text)]),
        # for EVERY text (loop invariant, no bound on the number of rounds): the clean-up only ever cuts at the two ends -- the
        # result is a contiguous piece of its argument and never longer (used as a fact of the cleanup_desc abstraction elsewhere)
        Unit(name='C01/cleanup_desc[any text: the result is never longer than the argument]', prop='C01',
             target='pytrs.parser.plssdesc.plss_parse:cleanup_desc', params={'text': Str()},
             loops={0: Loop(invariant=lambda text, old_text: len(text) <= len(old_text))},
             ensures=[('not_longer', lambda text, result: len(result) <= len(text))]),
        Unit(name='C01/cleanup_desc[any text: the result is an infix of the argument]', prop='C01',
             target='pytrs.parser.plssdesc.plss_parse:cleanup_desc', params={'text': Str()}, timeout_s=400,
             loops={0: Loop(invariant=lambda text, old_text: text in old_text)},
             ensures=[('infix', lambda text, result: result in text)]),
    ]


# ---- deduce_layout over abstract first matches ----------------------------------------------------------------------------------------

class FirstMatch:
    _pyvc_sym = True

    def __init__(self, s, e):
        self.s, self.e = s, e

    def start(self, n=0):
        return self.s

    def end(self, n=0):
        return self.e


class FirstPattern:
    _pyvc_sym = True

    def __init__(self, mo):
        self.mo = mo

    def search(self, text):
        return self.mo


def run_deduce(text):
    from pytrs.parser.plssdesc.plss_parse import deduce_layout
    return deduce_layout(text)


def _deduce_setup(ip, env):
    from pytrs.parser.plssdesc import plss_parse
    from pyvc.values import wrap
    sec = FirstMatch(env['sec_start'], wrap(env['sec_start'].t + 3)) if env['has_sec'] else None
    twp = FirstMatch(env['twp_start'], wrap(env['twp_start'].t + 10)) if env['has_twp'] else None
    ip.overlay[(id(plss_parse.__dict__), 'no_num_sec_regex')] = FirstPattern(sec)
    ip.overlay[(id(plss_parse.__dict__), 'twprge_regex')] = FirstPattern(twp)
    ip.ctx.assumed.append('abstraction:first section word / first Twp/Rge positions are ghost inputs of deduce_layout')


def _deduce_unit():
    return Unit(
        name='C01/deduce_layout', prop='C01', target='props.c01:run_deduce', params={'text': Str(r'[A-Za-z0-9].{20,}')},
        ghost={'has_sec': Choice(Const(False), Const(True)), 'has_twp': Choice(Const(False), Const(True)),
               'sec_start': Int(0, 60), 'twp_start': Int(0, 60)},
        requires=lambda sec_start, twp_start: sec_start != twp_start, setup_params=_deduce_setup, max_unroll=2,
        ensures=[('layout_follows_the_relative_position_of_the_first_markers',
                  lambda text, has_sec, has_twp, sec_start, twp_start, result:
                  implies(not (has_sec and has_twp), result == 'copy_all')
                  and implies(has_sec and has_twp and sec_start < twp_start and sec_start <= 1, result == 'S_desc_TR')
                  and implies(has_sec and has_twp and sec_start < twp_start and sec_start > 1, result == 'desc_STR')
                  and implies(has_sec and has_twp and sec_start > twp_start, result == 'TR_desc_S' or result == 'TRS_desc'))])


def units():
    from pyvc.api import borrow
    from props import c05
    # 'exactly one tract per named section, in reading order': the sections a multi-section match names are SecUnpacker's result,
    # whose contract (C05) is a callee contract of this property; the single-range instance is carried here, the longer lists in C05
    return ([_walk_unit(v) for v in VIEWS] + _cleanup_units() + [_deduce_unit()]
            + borrow(c05.units(), 'C01', keep=lambda u: 'unpack_sections' in u.name and ('1 items' in u.name or '2 items' in u.name)))


# ======================================================================================================================
# bounded stand-in
# ======================================================================================================================
def _bounded_renderings(tier, seed):
    import random
    import warnings
    import pytrs
    from pytrs.parser.plssdesc.plss_parse import cleanup_desc
    from props import gen
    warnings.simplefilter('ignore')
    rng = random.Random(seed)
    ev = 0
    distinct = set()
    violations = []
    samples = []

    def bad(inp, obs, exp):
        if len(violations) < 10:
            violations.append({'input': inp, 'observed': obs, 'expected': exp, 'replay_spec': None})
    n = 150 if tier == 'quick' else 1500
    for desc in gen.abstract_descriptions(rng, n):
        want = gen.expected_tracts(desc)
        for layout in gen.LAYOUTS:
            for style in (range(6) if tier == 'thorough' else rng.sample(range(6), 3)):
                if style == 3 and any(tr[2] < 10 for tr, _ in desc):
                    continue        # a bare '…-2W' range needs an explicit 'R' (excluded by the statement)
                text = gen.render(desc, layout, twp_style=style, sec_word=rng.choice(gen.SEC_WORDS), sep=rng.choice([', ', '; ', '\n']),
                                  through=rng.choice(gen.THROUGH), conj=rng.choice(gen.ANDS))
                distinct.add(text)
                try:
                    d = pytrs.PLSSDesc(text)
                except Exception as e:
                    bad({'text': text}, repr(e), 'parsed')
                    continue
                ev += 1
                got = [(t.trs, t.desc) for t in d.tracts]
                if got != want or d.e_flags or d.current_layout != layout:
                    bad({'text': text, 'layout': layout}, [got[:4], d.e_flags, d.current_layout], [want[:4], [], layout])
                    continue
                # pretty_desc is again such a description and parses back to the same tracts
                pretty = d.tracts.pretty_desc()
                d2 = pytrs.PLSSDesc(pretty)
                ev += 1
                got2 = [(t.trs, ' '.join(t.desc.split())) for t in d2.tracts]
                if got2 != [(a, ' '.join(b.split())) for a, b in want] or d2.e_flags:
                    bad({'text': text, 'pretty_desc': pretty}, got2[:4], want[:4])
        if len(samples) < 3:
            samples.append({'text': gen.render(desc, 'TRS_desc')[:90], 'tracts': want[:3]})
    # descriptions that return to an earlier Twp/Rge (A, B, A): reading order must survive the pretty_desc round trip
    A, B = (154, 'n', 97, 'w'), (7, 's', 10, 'e')
    for desc in ([(A, [([14], 'NE/4')]), (B, [([1], 'ALL')]), (A, [([15], 'W/2')])],
                 [(A, [([3, 4], 'Lots 1 - 3, S/2NE/4')]), (B, [([(5, 7)], 'E½')]), (A, [([1], 'NE/4'), ([2], 'ALL')])]):
        want = gen.expected_tracts(desc)
        for layout in gen.LAYOUTS:
            text = gen.render(desc, layout)
            d = pytrs.PLSSDesc(text)
            ev += 1
            distinct.add(text)
            got = [(t.trs, t.desc) for t in d.tracts]
            d2 = pytrs.PLSSDesc(d.tracts.pretty_desc())
            got2 = [(t.trs, ' '.join(t.desc.split())) for t in d2.tracts]
            if got != want or got2 != [(a, ' '.join(b.split())) for a, b in want]:
                bad({'text': text, 'pretty_desc': d.tracts.pretty_desc()}, [got[:4], got2[:4]], want[:4])
    # cleanup_desc: idempotent, and an infix of its argument (the idempotence used by the marker-walk abstraction)
    for blk in gen.BLOCKS:
        for pre in ('', ' ', ': ', ', ', '.\n', '- '):
            for suf in ('', ',', ' of', ', and', ' in the', ';\n', ' all of', ' And', ' OF THE'):
                s = pre + blk + suf
                c = cleanup_desc(s)
                ev += 1
                distinct.add(('cleanup', s))
                if cleanup_desc(c) != c or c not in s or c != blk:
                    bad({'fn': 'cleanup_desc', 'text': s}, c, blk)
    return {'evaluations': ev, 'distinct_nontrivial': len(distinct), 'violations': violations, 'samples': samples, 'exhaustive': False,
            'bound': f"{n} abstract descriptions (1-2 Twp/Rge groups x 1-3 section groups, single / and-list / through-range) x 4 layouts x "
                     "3-6 Twp/Rge spellings x section keyword, separator, connective spellings; pretty_desc round trip; cleanup_desc cases",
            'rule': "PLSSDesc(render(d)) yields exactly tracts(d) in order with verbatim blocks, the rendered layout, no error flag, and "
                    "pretty_desc parses back to the same tracts; non-trivial = distinct rendered text"}


def bounded(tier, seed):
    return [{'name': 'C01-bounded-renderings', 'run': lambda: _bounded_renderings(tier, seed)}]
