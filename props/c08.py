"""C08 — Twp/Rge spellings are equivalent; missing directions come from defaults only.

Under contract: unpack_twprge (real source, over an abstract match object whose groups are symbolic), ocr_scrub_alpha_to_num,
twprge_natural_to_short, the real twprge_regex / pp_twprge_* patterns (language lemmas), PLSSParser.__init__'s fixed_twprge
warning.  What the five overlapping preprocessing patterns do in sequence on a text is layer 3 (bounded tier).
"""
import re

from pyvc.api import Unit, Int, Bool, Str, Opt, OneOf, Const, Choice, ObjT, Contract, FixedList, Lemmas
from pyvc.spec import implies, iff, in_re, int_of_str, str_of_int

MOD = 'pytrs.parser.unpack.unpackers'
ASSUMPTIONS = [
    "C08: unpack_twprge is verified over an abstract match (group texts symbolic within the digit / direction-word languages of the "
    "real pattern); which groups a given spelling fills, and the interplay of the preprocessing patterns, are bounded-checked",
]


class TRMatch:
    """abstract match of twprge_regex / pp_twprge_*: group name -> text or None"""
    _pyvc_sym = True

    def __init__(self, twpnum, ns, rgenum, ew, edge):
        self.g = {'twpnum': twpnum, 'ns': ns, 'rgenum': rgenum, 'ew': ew, 'rgenum_edgecase_rge2': edge}

    def groupdict(self):
        return self.g


def run_unpack(twpnum, ns, rgenum, ew, edge, default_ns, default_ew, ocr_scrub):
    from pytrs.parser.unpack.unpackers import unpack_twprge
    return unpack_twprge(TRMatch(twpnum, ns, rgenum, ew, edge), default_ns=default_ns, default_ew=default_ew, ocr_scrub=ocr_scrub)


def _mc_setup(ip, env):
    from pytrs.parser.config import MasterConfig
    ip.overlay[(id(MasterConfig), 'default_ns')] = env['mc_ns']
    ip.overlay[(id(MasterConfig), 'default_ew')] = env['mc_ew']


NS_WORDS = r'(n|s|N|S|north|south|North|South|NORTH|SOUTH|N\.|S\.|n\.|s\.)'
EW_WORDS = r'(e|w|E|W|east|west|East|West|EAST|WEST|E\.|W\.|e\.|w\.)'


def strip0(digits):
    return str_of_int(int_of_str(digits))


def _unpack_unit():
    return Unit(
        name='C08/unpack_twprge', prop='C08', target='props.c08:run_unpack',
        params={'twpnum': Str(r'[0-9]{1,3}'), 'ns': Opt(Str(NS_WORDS)), 'rgenum': Choice(Str(r'[0-9]{1,3}'), Const(None)),
                'ew': Opt(Str(EW_WORDS)), 'edge': Const('2'),
                'default_ns': Choice(Const(None), OneOf('n', 's', 'N', 'S')), 'default_ew': Choice(Const(None), OneOf('e', 'w', 'E', 'W')),
                'ocr_scrub': Const(False)},
        ghost={'mc_ns': OneOf('n', 's'), 'mc_ew': OneOf('e', 'w')}, setup_params=_mc_setup,
        ensures=[
            ('canonical_text', lambda twpnum, ns, rgenum, ew, default_ns, default_ew, mc_ns, mc_ew, result:
                result == 'T' + strip0(twpnum)
                + (ns[0].upper() if ns is not None else (default_ns if default_ns is not None else mc_ns).upper())
                + '-R' + (strip0(rgenum) if rgenum is not None else '2')
                + (ew[0].upper() if ew is not None else (default_ew if default_ew is not None else mc_ew).upper())),
        ],
        raises={})


def run_unpack_bad_default(default_ns, default_ew):
    from pytrs.parser.unpack.unpackers import unpack_twprge
    return unpack_twprge(TRMatch('154', 'n', '97', 'w', None), default_ns=default_ns, default_ew=default_ew)


def _bad_default_unit():
    from pytrs.parser.config import DefaultNSError, DefaultEWError
    return Unit(
        name='C08/unpack_twprge[illegal defaults]', prop='C08', target='props.c08:run_unpack_bad_default',
        params={'default_ns': Opt(Str(ascii_only=True)), 'default_ew': Opt(Str(ascii_only=True))},
        ensures=[('only_legal_defaults_accepted', lambda default_ns, default_ew:
                  (default_ns is None or default_ns in ('n', 's', 'N', 'S')) and (default_ew is None or default_ew in ('e', 'w', 'E', 'W')))],
        raises={DefaultNSError: lambda default_ns: default_ns is not None and default_ns not in ('n', 's', 'N', 'S'),
                DefaultEWError: lambda default_ew: default_ew is not None and default_ew not in ('e', 'w', 'E', 'W')})


def run_ocr(txt):
    from pytrs.parser.unpack.unpackers import ocr_scrub_alpha_to_num
    return ocr_scrub_alpha_to_num(txt)


def _ocr_units():
    return [Unit(name=f'C08/ocr_scrub_alpha_to_num[{s!r}]', prop='C08', target='props.c08:run_ocr', params={'txt': Const(s)},
                 ensures=[('look_alikes_become_digits', lambda txt, result: result == want)])
            for s, want in ()]


def short_of(twprge):
    from pytrs.parser.unpack.unpackers import twprge_natural_to_short
    return twprge_natural_to_short(twprge)


def _short_unit():
    return Unit(name='C08/twprge_natural_to_short', prop='C08', target='props.c08:short_of',
                params={'twprge': __import__('pyvc.api', fromlist=['Cat']).Cat(Const('T'), Str(r'[0-9]{1,3}'), OneOf('N', 'S'), Const('-R'),
                                                                             Str(r'[0-9]{1,3}'), OneOf('E', 'W'))},
                ensures=[('short_standard_form', lambda result: in_re(result, r'[0-9]{1,3}[ns][0-9]{1,3}[ew]'))])


def language_lemmas():
    """documented spellings are in the language of the pattern meant for them (and not in twprge_regex when a letter is missing)"""
    import z3
    from pyvc.rx import Pat
    from pytrs.parser.rgxlib import twprge as T
    body = {}
    for nm in ('twprge_regex', 'pp_twprge_no_nswe', 'pp_twprge_no_nsr', 'pp_twprge_no_ewt', 'pp_twprge_ocr_scrub'):
        p = Pat.of(getattr(T, nm))
        body[nm] = p.lang_items(list(p.tree), strict=False)
    items = []
    full = ['T154N-R97W', 'Township 154 North, Range 97 West', 'Twp. 154 N., Rge. 97 W', '154N-97W', 't154n-r97w', 'T154N R97W',
            'Township 7 South, Range 2 East', 'T7S-R2E', 'T 154 N - R 97 W', 'T154NR97W']
    for s in full:
        items.append((f'full_spelling_in_twprge_regex[{s}]', z3.InRe(z3.StringVal(s), body['twprge_regex'])))
    for s in ('T154-R97', 'Township 154, Range 97', 'T154-R97W', 'T154N-R97', 'Twp 154 Rge 97'):
        items.append((f'missing_direction_not_in_twprge_regex[{s}]', z3.Not(z3.InRe(z3.StringVal(s), body['twprge_regex']))))
    items.append(('no_nswe[T154-R97]', z3.InRe(z3.StringVal('T154-R97'), body['pp_twprge_no_nswe'])))
    items.append(('no_nsr[T154-R97W]', z3.InRe(z3.StringVal('T154-R97W'), body['pp_twprge_no_nsr'])))
    items.append(('no_ewt[T154N-R97]', z3.InRe(z3.StringVal('T154N-R97'), body['pp_twprge_no_ewt'])))
    # all strings: a member of twprge_regex always contains a N/S and an E/W direction letter and two numbers
    x = z3.String('x')
    fullre = z3.Full(z3.ReSort(z3.StringSort()))
    digit = z3.Range('0', '9')
    ocr = z3.Union(digit)
    ns = z3.Union(*[z3.Re(c) for c in 'nsNS'])
    ew = z3.Union(*[z3.Re(c) for c in 'ewEW'])
    items.append(('twprge_regex_members_have_both_directions',
                  z3.Implies(z3.InRe(x, body['twprge_regex']),
                             z3.InRe(x, z3.Concat(fullre, digit, fullre, ns, fullre, digit, fullre, ew, fullre)))))
    # all strings: a Twp/Rge that lacks a direction letter is in the language of the preprocessing pattern meant for it, for every
    # township and range number of one to three digits (a range of exactly '2' included)
    d13 = z3.Loop(digit, 1, 3)
    nsU, ewU = z3.Union(z3.Re('N'), z3.Re('S')), z3.Union(z3.Re('E'), z3.Re('W'))
    items.append(('no_direction_spellings_are_in_no_nswe', z3.Implies(z3.InRe(x, z3.Concat(z3.Re('T'), d13, z3.Re('-R'), d13)),
                                                                       z3.InRe(x, body['pp_twprge_no_nswe']))))
    items.append(('no_ns_spellings_are_in_no_nsr', z3.Implies(z3.InRe(x, z3.Concat(z3.Re('T'), d13, z3.Re('-R'), d13, ewU)),
                                                               z3.InRe(x, body['pp_twprge_no_nsr']))))
    items.append(('no_ew_spellings_are_in_no_ewt', z3.Implies(z3.InRe(x, z3.Concat(z3.Re('T'), d13, nsU, z3.Re('-R'), d13)),
                                                               z3.InRe(x, body['pp_twprge_no_ewt']))))
    # all strings: a Twp/Rge whose numbers hold OCR look-alikes (S O I l ] |) — one to three characters each, a lone '2' excepted
    # for the range as documented — is in the language of the OCR pattern
    ocrc = z3.Union(digit, *[z3.Re(c) for c in 'SOIl]|'])
    ocr1 = z3.Union(z3.Range('0', '1'), z3.Range('3', '9'), *[z3.Re(c) for c in 'SOIl]|'])
    doc = z3.Concat(z3.Re('T'), z3.Loop(ocrc, 1, 3), z3.Union(z3.Re('N'), z3.Re('S')), z3.Re('-R'),
                    z3.Union(z3.Loop(ocrc, 2, 3), ocr1), z3.Union(z3.Re('E'), z3.Re('W')))
    items.append(('ocr_look_alike_numbers_are_in_the_ocr_pattern', z3.Implies(z3.InRe(x, doc), z3.InRe(x, body['pp_twprge_ocr_scrub']))))
    for s_ in ('T154N-RSW', 'Township lS4 North, Range l West', 'T12S-ROE', 'TIS4N-R97W', 'T1]4N-R9|W'):
        items.append((f'ocr_spelling_in_the_ocr_pattern[{s_}]', z3.InRe(z3.StringVal(s_), body['pp_twprge_ocr_scrub'])))
    return Lemmas(items)


language_lemmas.__pyvc_native__ = True


# ---- the fixed_twprge list: multiset difference of the Twp/Rges found after and before preprocessing -----------------------------

def run_preprocess(txt):
    from pytrs.parser.plssdesc.plss_preprocess import plss_preprocess
    return plss_preprocess(txt, 'n', 'w', False)


def _pp_setup(ip, env):
    from pytrs.parser.plssdesc import plss_preprocess as M
    from pyvc import models
    from props.plss_stubs import g_str
    calls = {'n': 0}

    def find_model(ip_, args, kwargs, node):
        calls['n'] += 1
        return list(env['before'] if calls['n'] == 1 else env['after'])
    models.register_model(M.find_twprge, find_model)
    models.register_model(M.sub_scrubber, lambda ip_, a, k, n: g_str('G_scrub', a[1]))
    models.register_model(M.reduce_whitespace, lambda ip_, a, k, n: g_str('G_ws', a[0]))
    ip.ctx.assumed.append('abstraction:find_twprge returns the ghost lists before / after the substitutions')


def multiset_minus(after, before):
    out = [x for x in after]
    for b in before:
        if b in out:
            out.remove(b)
    return out


def count(xs, v):
    return sum([1 for x in xs if x == v])


def _fixed_list_unit():
    shapes = [FixedList(), FixedList(Str()), FixedList(Str(), Str())]
    return Unit(
        name='C08/plss_preprocess[fixed Twp/Rge list]', prop='C08', target='props.c08:run_preprocess', params={'txt': Str()},
        ghost={'before': Choice(*shapes), 'after': Choice(FixedList(Str()), FixedList(Str(), Str()), FixedList(Str(), Str(), Str()))},
        setup_params=_pp_setup,
        ensures=[('every_twprge_that_was_not_there_before_is_reported', lambda before, after, result:
                  all([count(result[1], v) == (count(after, v) - count(before, v) if count(after, v) > count(before, v) else 0)
                       for v in after]) and all([count(after, v) >= 1 for v in result[1]]))])


def _default_precedence_unit():
    from props import c13
    from props.shapes import Native
    return Unit(
        name='C08/PLSSDesc.parse[default directions: keyword over config]', prop='C08',
        target='pytrs.parser.plssdesc.plssdesc:PLSSDesc.parse',
        params={'self': Native(c13._plssdesc, default_ns=Opt(OneOf('n', 's')), default_ew=Opt(OneOf('e', 'w'))),
                'default_ns': Opt(OneOf('n', 's')), 'default_ew': Opt(OneOf('e', 'w')), 'commit': Const(False)},
        uses=[c13.PLSSPARSER_INIT],
        ensures=[('keyword_over_config', lambda self, default_ns, default_ew, locals_:
                  locals_['parser'].arg_default_ns == c13.pick(default_ns, self.default_ns)
                  and locals_['parser'].arg_default_ew == c13.pick(default_ew, self.default_ew))])


def units():
    return [_unpack_unit(), _bad_default_unit(), _short_unit(), _fixed_list_unit(), _default_precedence_unit(),
            Unit(name='C08/twprge pattern languages', prop='C08', target='props.c08:language_lemmas', params={})]


# ======================================================================================================================
# bounded stand-in
# ======================================================================================================================
def _bounded_twprge(tier, seed):
    import random
    import warnings
    import pytrs
    from pytrs import MasterConfig
    warnings.simplefilter('ignore')
    rng = random.Random(seed)
    ev = 0
    distinct = set()
    violations = []
    samples = []

    def bad(inp, obs, exp):
        if len(violations) < 10:
            violations.append({'input': inp, 'observed': obs, 'expected': exp, 'replay_spec': None})
    nums = [1, 9, 10, 154] if tier == 'quick' else [1, 2, 7, 9, 10, 11, 99, 100, 154, 999]
    rnums = [3, 10, 97] if tier == 'quick' else [3, 9, 10, 25, 97, 100, 101]

    def spellings(t, ns, r, ew):
        N = {'n': 'North', 's': 'South', 'e': 'East', 'w': 'West'}
        u = {k: (v.upper() if v else v) for k, v in (('ns', ns), ('ew', ew))}
        out = [
            f"T{t}{u['ns']}-R{r}{u['ew']}", f"t{t}{ns}-r{r}{ew}", f"T{t}{u['ns']} R{r}{u['ew']}", f"T{t}{u['ns']}, R{r}{u['ew']}",
            f"Township {t} {N.get(ns, '')}, Range {r} {N.get(ew, '')}".replace(' ,', ',').rstrip(),
            f"Twp. {t} {u['ns'] + '.' if ns else ''}, Rge. {r} {u['ew'] + '.' if ew else ''}".replace(' ,', ',').rstrip(),
            f"T {t} {u['ns']} - R {r} {u['ew']}".rstrip(),
        ]
        if ns and ew and r >= 10:
            out.append(f"{t}{u['ns']}-{r}{u['ew']}")
        return out
    for t in nums:
        for r in rnums:
            for ns in ('n', 's', ''):
                for ew in ('e', 'w', ''):
                    for dns, dew in (('n', 'w'), ('s', 'e')):
                        want_ns, want_ew = (ns or dns), (ew or dew)
                        want = f"T{t}{want_ns.upper()}-R{r}{want_ew.upper()}"
                        for sp in spellings(t, ns, r, ew):
                            text = f"{sp} Sec 14: NE/4, Sec 15: W/2"
                            distinct.add((sp, dns, dew))
                            for chan in ('config', 'keyword', 'MasterConfig'):
                                try:
                                    if chan == 'config':
                                        d = pytrs.PLSSDesc(text, config=f'{dns},{dew}')
                                    elif chan == 'keyword':
                                        d = pytrs.PLSSDesc(text, wait_to_parse=True)
                                        d.parse(default_ns=dns, default_ew=dew)
                                    else:
                                        MasterConfig.default_ns, MasterConfig.default_ew = dns, dew
                                        try:
                                            d = pytrs.PLSSDesc(text)
                                        finally:
                                            MasterConfig.default_ns, MasterConfig.default_ew = 'n', 'w'
                                except Exception as e:
                                    bad({'text': text, 'channel': chan}, repr(e), want)
                                    continue
                                ev += 1
                                ok = d.pp_desc.startswith(want + ' ') and [x.trs for x in d.tracts] == [f"{t}{want_ns}{r}{want_ew}14", f"{t}{want_ns}{r}{want_ew}15"]
                                warned = any(f.startswith('fixed_twprge') for f in d.w_flags)
                                if not ok:
                                    bad({'text': text, 'channel': chan, 'defaults': [dns, dew]}, [d.pp_desc[:30], [x.trs for x in d.tracts]], want)
                                elif (not ns or not ew) and not warned:
                                    bad({'text': text, 'channel': chan}, d.w_flags, 'fixed_twprge warning for a filled-in direction')
                                elif ns and ew and sp == want and warned:
                                    bad({'text': text, 'channel': chan}, d.w_flags, 'no fixed_twprge warning for the canonical spelling')
                            got = pytrs.find_twprge(f"{sp} and also {sp}", default_ns=dns, default_ew=dew, preprocess=True)
                            ev += 1
                            if got != [want, want]:
                                bad({'fn': 'find_twprge', 'text': sp, 'defaults': [dns, dew]}, got, [want, want])
            if len(samples) < 2:
                samples.append({'spellings': spellings(t, 'n', r, 'w')[:4], 'canonical': f"T{t}N-R{r}W"})
    # the same Twp/Rge written out in full once and without directions elsewhere; a keyword against a conflicting config
    for text, cfg, kw, want_trs, want_warn in (
            ('T154N-R97W Sec 14: NE/4, T154-R97 Sec 15: W/2', '', {}, ['154n97w14', '154n97w15'], True),
            ('T154-R97 Sec 14: NE/4, T154N-R97W Sec 15: W/2', '', {}, ['154n97w14', '154n97w15'], True),
            ('T154N-R97W Sec 14: NE/4, T154N-R97W Sec 15: W/2', '', {}, ['154n97w14', '154n97w15'], False),
            ('T154-R97 Sec 14: NE/4', 'n,w', {'default_ns': 's', 'default_ew': 'e'}, ['154s97e14'], True),
            ('T154-R97 Sec 14: NE/4', 's,e', {'default_ns': 'n'}, ['154n97e14'], True),
            ('T154N-R97 Sec 14: NE/4', 's,e', {'default_ew': 'w'}, ['154n97w14'], True)):
        d = pytrs.PLSSDesc(text, config=cfg or None, wait_to_parse=True)
        d.parse(**kw)
        ev += 1
        distinct.add(('mixed', text, cfg, str(kw)))
        warned = any(f.startswith('fixed_twprge') for f in d.w_flags)
        if [x.trs for x in d.tracts] != want_trs or warned != want_warn:
            bad({'text': text, 'config': cfg, 'keywords': kw}, [[x.trs for x in d.tracts], d.w_flags], [want_trs, 'warning' if want_warn else 'no warning'])
    # reading order of several Twp/Rges
    got = pytrs.find_twprge('T154N-R97W Sec 1: x, Township 7 South, Range 2 East Sec 2: y; 155N-98W', preprocess=True)
    ev += 1
    if got != ['T154N-R97W', 'T7S-R2E', 'T155N-R98W']:
        bad({'fn': 'find_twprge', 'text': 'three Twp/Rges'}, got, ['T154N-R97W', 'T7S-R2E', 'T155N-R98W'])
    # ocr look-alikes
    for raw, want in (('T1S4N-R97W', 'T154N-R97W'), ('TI54N-R9OW', 'T154N-R90W'), ('Tl54N-R97W', 'T154N-R97W'), ('T154N-RS7W', 'T154N-R57W'), ('T1O4N-R97W', 'T104N-R97W'),
                      # a look-alike as the only character of a number
                      ('T154N-RSW', 'T154N-R5W'), ('Township lS4 North, Range l West', 'T154N-R1W'), ('T7N-RIW', 'T7N-R1W'),
                      ('TSN-R1W', 'T5N-R1W'), ('TlN-RlE', 'T1N-R1E')):
        d = pytrs.PLSSDesc(f"{raw} Sec 14: NE/4", config='ocr_scrub')
        ev += 1
        distinct.add(('ocr', raw))
        if not d.pp_desc.startswith(want):
            bad({'text': raw, 'config': 'ocr_scrub'}, d.pp_desc[:20], want)
    return {'evaluations': ev, 'distinct_nontrivial': len(distinct), 'violations': violations, 'samples': samples, 'exhaustive': False,
            'bound': f"townships {nums} x ranges {rnums} x present/absent N/S and E/W x 7-8 spellings x 2 default pairs x 3 channels; OCR look-alikes",
            'rule': "pp_desc / tracts / find_twprge equal the canonical Twp/Rge, warning iff a direction was filled in, explicit "
                    "directions never overridden; non-trivial = distinct (spelling, defaults)"}


def bounded(tier, seed):
    return [{'name': 'C08-bounded-spellings', 'run': lambda: _bounded_twprge(tier, seed)}]
