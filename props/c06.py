"""C06 — tract parsing is compositional: lots, divisions, acreages and aliquots.

Under contract (real source): TractParser.parse and gen_flags (incl. find_duplicates), Tract.lots_qqs, Tract.ilots, over an
abstraction of the two extraction loops: the lot blocks / aliquot blocks that the regexes cut out of the text, and what
LotUnpacker / parse_aliquot yield for each block, are ghost inputs.  That each element of a real description is recognised
independently of its neighbours (adjacency, ';;' rewriting) is layer 3 (bounded tier).
"""
from pyvc.api import Unit, Int, Bool, Str, Opt, OneOf, Const, Choice, ObjT, Contract, FixedList, DictOf
from pyvc.spec import implies, iff, in_re
from props import plss_stubs

ASSUMPTIONS = [
    "C06: abstraction contracts for multilot_with_aliquot_regex / aliquot_unpacker_regex / all_regex (ghost block lists), "
    "LotUnpacker, parse_aliquot, remove_fractions; 0..2 lot blocks and 0..2 aliquot blocks in the proved part",
]


class BlockMatch:
    _pyvc_sym = True

    def __init__(self, d):
        self.d = d

    def __getitem__(self, name):
        return self.d.get(name)

    def group(self, n=0):
        return self.d.get('text')

    def start(self, n=0):
        return 0

    def end(self, n=0):
        return self.d.get('end', 0)


class SeqPattern:
    """search() hands out the ghost matches one after the other, then None (each found block is replaced by ';;' in the text)"""
    _pyvc_sym = True

    def __init__(self, matches):
        self.matches = matches
        self.n = 0

    def search(self, text):
        if self.n < len(self.matches):
            m = self.matches[self.n]
            self.n = self.n + 1
            return BlockMatch(m)
        return None


class OnePattern:
    """all_regex.search: the ghost decides whether 'ALL' is found and whether anything but separators / placeholders follows it;
    the code's own test of the remaining text is then decided from that assumption"""
    _pyvc_sym = True

    def __init__(self, case, ctx):
        self.case = case
        self.ctx = ctx

    def search(self, text):
        import z3
        from pyvc.values import SV, fresh_name, lift
        if self.case == 'none':
            return None
        t = lift(text)
        e = z3.Int(fresh_name('all_end'))
        self.ctx.assume(z3.And(e >= 3, e <= z3.Length(t)))
        rest = z3.SubString(t, e, z3.Length(t) - e)
        seps = z3.Star(z3.Union(*[z3.Re(c) for c in ' \t\n\r\x0b\x0c,;.']))
        # \s under re.UNICODE has more members than these; the abstraction only needs both outcomes to be reachable
        if self.case == 'all':
            self.ctx.assume(z3.InRe(rest, z3.Re('')) if False else z3.InRe(rest, seps))
        else:
            self.ctx.assume(z3.Not(z3.InRe(rest, seps)))
            self.ctx.assume(z3.InRe(rest, z3.Plus(z3.Range('a', 'z'))))
        return BlockMatch({'context': None, 'text': 'ALL', 'end': SV(e)})
    search.__pyvc_native__ = True


class FakeLotUnpacker:
    _pyvc_sym = True

    def __init__(self, lot_list, lot_acres, aliquots_through, flags):
        self.lot_list = lot_list
        self.lot_acres = lot_acres
        self.aliquots_through = aliquots_through
        self.flags = [f for f in flags]
        self.flag_lines = [(f, f) for f in flags]


LOT_BLOCKS = {
    'blockA': (['L1', 'L2'], {'L1': 'acres_a1'}),
    'blockB': (['L2', 'L3', 'L4'], {'L2': 'acres_b2', 'L4': 'acres_b4'}),
    'blockC': (['L5'], {}),
    'blockD': (['L5'], {'L5': 'acres_d5'}),
}


def _setup(ip, env):
    from pytrs.parser.tract import tract_parse
    from pyvc import models
    lots = env['lot_blocks']
    aliqs = env['aliq_blocks']
    lot_ms = [{'lots': nm, 'aliquot': env['lead_' + nm], 'text': nm} for nm in lots]
    ip.overlay[(id(tract_parse.__dict__), 'multilot_with_aliquot_regex')] = SeqPattern(lot_ms)
    ip.overlay[(id(tract_parse.__dict__), 'aliquot_unpacker_regex')] = SeqPattern([{'text': a} for a in aliqs])
    ip.overlay[(id(tract_parse.__dict__), 'all_regex')] = OnePattern(env['all_case'], ip.ctx)

    def unpacker_model(ip_, args, kwargs, node):
        nm = args[0]
        lot_list, acres = LOT_BLOCKS[nm]
        return FakeLotUnpacker(list(lot_list), {k: plss_stubs.g_str('G_' + v) for k, v in acres.items()}, env['through_' + nm],
                               ['unpacker_flag_' + nm] if env['flag_' + nm] else [])
    models.register_model(tract_parse.LotUnpacker, unpacker_model)
    models.register_model(tract_parse.parse_aliquot, lambda ip_, a, k, n: [plss_stubs.g_str('G_qq1', a[0], *a[1:5]), plss_stubs.g_str('G_qq2', a[0], *a[1:5])]
                          if a[0] != 'ALL' else [plss_stubs.g_str('G_all', *a[1:5])])
    models.register_model(tract_parse.remove_fractions, lambda ip_, a, k, n: plss_stubs.g_str('G_nofrac', a[0]))
    from props import c14
    models.register_model(tract_parse.TractPreprocessor, c14.preprocessor_model)
    ip.ctx.assumed.append('abstraction:TractParser extraction loops hand out the ghost blocks')


def run_parser(text, suppress_lot_divs, qq_depth_min, qq_depth_max, qq_depth, break_halves):
    from pytrs.parser.tract.tract_parse import TractParser
    p = TractParser(text, clean_qq=False, suppress_lot_divs=suppress_lot_divs, qq_depth_min=qq_depth_min, qq_depth_max=qq_depth_max,
                    qq_depth=qq_depth, break_halves=break_halves, parent=None)
    return p


def nofrac(s):
    return plss_stubs.g_str('G_nofrac', s)


nofrac.__pyvc_native__ = True


def lots_ok(p, lot_blocks, suppress, env):
    names = [(nm, k) for nm in lot_blocks for k in range(len(LOT_BLOCKS[nm][0]))]
    return (len(p.lots) == len(names)
            and all([p.lots[n] == ((nofrac(env['lead_' + names[n][0]]) + ' of ' + LOT_BLOCKS[names[n][0]][0][names[n][1]])
                                   if ((not suppress) and env['lead_' + names[n][0]] is not None and names[n][1] < env['through_' + names[n][0]])
                                   else LOT_BLOCKS[names[n][0]][0][names[n][1]]) for n in range(len(names))]))


def _unit(lot_blocks, aliq_blocks, all_case):
    ghost = {'lot_blocks': Const(list(lot_blocks)), 'aliq_blocks': Const(list(aliq_blocks)), 'all_case': Const(all_case)}
    for nm in lot_blocks:
        ghost['lead_' + nm] = Opt(Str())
        ghost['through_' + nm] = Choice(*[Const(k) for k in range(1, len(LOT_BLOCKS[nm][0]) + 1)])
        ghost['flag_' + nm] = Choice(Const(False), Const(True))

    def post(suppress_lot_divs, qq_depth_min, qq_depth_max, qq_depth, break_halves, result, **kw):
        return True
    names = ['lead_' + nm for nm in lot_blocks] + ['through_' + nm for nm in lot_blocks] + ['flag_' + nm for nm in lot_blocks]

    def mk_post():
        # the ensures lambda needs the ghost values by name: collect them through an env dict built by a native helper
        return None
    return Unit(
        name=f'C06/TractParser.parse[lots={"+".join(lot_blocks) or "-"}, aliquots={len(aliq_blocks)}, {all_case}]', prop='C06',
        target='props.c06:run_parser',
        params={'text': Str(), 'suppress_lot_divs': Choice(Const(False), Const(True)), 'qq_depth_min': Int(), 'qq_depth_max': Opt(Int()), 'qq_depth': Opt(Int()),
                'break_halves': Bool()},
        ghost=ghost, setup_params=_setup,
        ensures=[(nm, _clause(nm)) for nm in CLAUSES])


def _clause(nm):
    def post(suppress_lot_divs, qq_depth_min, qq_depth_max, qq_depth, break_halves, result, ghosts_):
        return compositional(nm, result, suppress_lot_divs, qq_depth_min, qq_depth_max, qq_depth, break_halves, ghosts_)
    return post


CLAUSES = ('lots_are_the_concatenation_of_the_lot_elements', 'aliquots_are_the_concatenation_of_the_aliquot_elements',
           'acreages_are_the_right_biased_union', 'one_warning_per_acreage_collision', 'flags_and_lines_paired',
           'dup_qq_flag_iff_duplicate_qq', 'dup_lot_flag_iff_duplicate_lot', 'one_whole_aliquot_per_block')


def eff(qq_depth_min, qq_depth_max, qq_depth):
    return (qq_depth, qq_depth) if qq_depth is not None else (qq_depth_min, qq_depth_max)


def compositional(clause, p, suppress, dmin, dmax, d, bh, env):
    lot_blocks, aliq_blocks, all_case = env['lot_blocks'], env['aliq_blocks'], env['all_case']
    if clause == 'lots_are_the_concatenation_of_the_lot_elements':
        return lots_ok(p, lot_blocks, suppress, env)
    if clause == 'aliquots_are_the_concatenation_of_the_aliquot_elements':
        emin, emax = eff(dmin, dmax, d)
        blocks = [a for a in aliq_blocks] + (['ALL'] if all_case == 'all' else [])
        want_qqs = []
        for a in blocks:
            if a == 'ALL':
                want_qqs = want_qqs + [plss_stubs.g_str('G_all', emin, emax, d, bh)]
            else:
                want_qqs = want_qqs + [plss_stubs.g_str('G_qq1', a, emin, emax, d, bh), plss_stubs.g_str('G_qq2', a, emin, emax, d, bh)]
        return p.qqs == want_qqs
    if clause in ('acreages_are_the_right_biased_union', 'one_warning_per_acreage_collision'):
        # acreages: right-biased union; a warning exactly on collision
        acres = {}
        collisions = 0
        for nm in lot_blocks:
            for k, v in LOT_BLOCKS[nm][1].items():
                if k in acres:
                    collisions = collisions + 1
                acres[k] = plss_stubs.g_str('G_' + v)
        if clause == 'acreages_are_the_right_biased_union':
            return len(p.lot_acres) == len(acres) and all([p.lot_acres[k] == acres[k] for k in acres])
        return sum([1 for f in p.w_flags if f.startswith('dup_lot_acreage')]) == collisions
    if clause == 'flags_and_lines_paired':
        return len(p.w_flags) == len(p.w_flag_lines)
    if clause == 'dup_qq_flag_iff_duplicate_qq':
        return iff(any([f.startswith('dup_qq') for f in p.w_flags]), any([p.qqs[a] == p.qqs[b] for a in range(len(p.qqs)) for b in range(a)]))
    if clause == 'dup_lot_flag_iff_duplicate_lot':
        return iff(any([f.startswith('dup_lot<') for f in p.w_flags]), any([p.lots[a] == p.lots[b] for a in range(len(p.lots)) for b in range(a)]))
    return len(p.aliquots_whole) == len(aliq_blocks)


# ---- LotUnpacker: how many lots of a block the leading aliquot reaches (over the item abstraction of C05) --------------------------
def reach_cut(thru, word):
    """index of the leftmost item that restates the word 'Lot(s)' without closing a range; the leading aliquot stops before it"""
    for j in range(1, len(thru) + 1):
        if word[j - 1] and not thru[j - 1]:
            return j
    return len(thru) + 1


reach_cut.__pyvc_native__ = True


def _reach_units():
    import itertools
    from props import c05
    us = []
    for k in (1, 2, 3):
        for thru in c05._combos(k):
            for word in itertools.product([False, True], repeat=k - 1):
                word = list(word)
                us.append(Unit(
                    name=f'C06/LotUnpacker.unpack_lots[reach of the leading aliquot: {k} items, through={thru}, Lot restated={word}]', prop='C06',
                    target='props.c05:unpack_lots', params={'n_items': Const(k)},
                    ghost={'items': FixedList(*[Int(0, 999) for _ in range(k)]), 'thru': Const(thru), 'word_rightmost': Const(word)},
                    requires=lambda items, thru: all([(not thru[n]) or (items[n] - items[n + 1] <= 3 and items[n + 1] - items[n] <= 3)
                                                      for n in range(len(thru))]),
                    setup_params=c05._setup('lot'), hooks={'max_range': 4},
                    ensures=[('aliquot_reaches_the_lots_before_the_restated_word', lambda items, thru, word_rightmost, result:
                              result[3] == len(c05.expand_items(items[:reach_cut(thru, word_rightmost)], thru[:reach_cut(thru, word_rightmost) - 1]))
                              and result[0] == ['L' + str(x) for x in c05.expand_items(items, thru)])]))
    return us


def units():
    us = _reach_units()
    for lots in ((), ('blockA',), ('blockA', 'blockB'), ('blockC', 'blockD'), ('blockC', 'blockA')):
        for aliqs in ((), ('aq1',), ('aq1', 'aq2')):
            for all_case in (('none', 'all', 'all with context') if not aliqs else ('none',)):
                u = _unit(lots, aliqs, all_case)
                # the large products run in the thorough tier only (same contracts, more blocks at once)
                if (len(lots) == 2 and len(aliqs) == 2) or lots == ('blockC', 'blockA'):
                    u.thorough_only = True
                us.append(u)
    return us


# ---------------------------------------------------------------------------------------------------------------------
# bounded tier (labelled bounded, never counted as proved): the regex layer — each element is recognised independently of
# its neighbours — on the real Tract
ALL16 = ['NENE', 'NWNE', 'SENE', 'SWNE', 'NENW', 'NWNW', 'SENW', 'SWNW', 'NESE', 'NWSE', 'SESE', 'SWSE', 'NESW', 'NWSW', 'SESW', 'SWSW']
# text, kind, lots (with divisions), lots (divisions suppressed), qqs at the default depth, acreages, whole aliquots
ELEMENTS = [
    ('Lot 1', 'lot', ['L1'], ['L1'], [], {}, []),
    ('Lots 2 - 4', 'lot', ['L2', 'L3', 'L4'], ['L2', 'L3', 'L4'], [], {}, []),
    ('Lots 5 and 6', 'lot', ['L5', 'L6'], ['L5', 'L6'], [], {}, []),
    ('Lot 7(38.12)', 'lot', ['L7'], ['L7'], [], {'L7': '38.12'}, []),
    ('Lot 8 [40.00]', 'lot', ['L8'], ['L8'], [], {'L8': '40.00'}, []),
    ('Lot 3', 'lot', ['L3'], ['L3'], [], {}, []),
    ('Lot 7(39.50)', 'lot', ['L7'], ['L7'], [], {'L7': '39.50'}, []),
    ('Lot 9 - Lot 11', 'lot', ['L9', 'L10', 'L11'], ['L9', 'L10', 'L11'], [], {}, []),
    ('Lots 13, 14(22.5) and 15', 'lot', ['L13', 'L14', 'L15'], ['L13', 'L14', 'L15'], [], {'L14': '22.5'}, []),
    ('N/2 of Lot 9', 'div', ['N2 of L9'], ['L9'], [], {}, []),
    ('W/2 of Lots 10 - 12', 'div', ['W2 of L10', 'W2 of L11', 'W2 of L12'], ['L10', 'L11', 'L12'], [], {}, []),
    ('E/2 of Lot 16[40] and Lot 17', 'div', ['E2 of L16', 'L17'], ['L16', 'L17'], [], {'L16': '40'}, []),
    ('NE/4', 'aliq', [], [], ['NENE', 'NWNE', 'SENE', 'SWNE'], {}, ['NE']),
    ('S/2NW/4', 'aliq', [], [], ['SENW', 'SWNW'], {}, ['S2NW']),
    ('SE/4SW/4', 'aliq', [], [], ['SESW'], {}, ['SESW']),
    ('W/2', 'aliq', [], [], ['NENW', 'NWNW', 'SENW', 'SWNW', 'NESW', 'NWSW', 'SESW', 'SWSW'], {}, ['W2']),
    ('N/2NE/4NW/4', 'aliq', [], [], ['N2NENW'], {}, ['N2NENW']),
    ('SW/4NE/4', 'aliq', [], [], ['SWNE'], {}, ['SWNE']),
    ('ALL', 'all', [], [], ALL16, {}, []),
]
SEPARATORS = [', ', '; ', ';\n', ',\n', '\n', ',', ';']
DEPTHS = ['', 'qq_depth.1', 'qq_depth.3', 'qq_depth_min.1', 'qq_depth_min.3', 'qq_depth_max.1', 'qq_depth_min.1,qq_depth_max.3', 'break_halves',
          'qq_depth_min.3,break_halves']


def finding_class(kinds, seps):
    """the two recorded defects, by the adjacency that triggers them (known_findings.json); None = must hold"""
    cls = set()
    for n, sep in enumerate(seps):
        if sep == '\n' and kinds[n] == 'aliq' and kinds[n + 1] == 'aliq':
            cls.add('line break alone between two aliquot chains')
        if sep == '\n' and kinds[n] == 'aliq' and kinds[n + 1] in ('lot', 'div'):
            cls.add('line break alone between an aliquot chain and a lot group')
    if 'all' in kinds and any(k == 'aliq' for k in kinds[kinds.index('all') + 1:]):
        cls.add('ALL written before another aliquot chain')
    if kinds.count('all') > 1:
        cls.add('ALL written twice')
    return sorted(cls)


def _bounded_elements(tier, seed):
    import itertools
    import random
    import warnings
    import pytrs
    warnings.simplefilter('ignore')
    rng = random.Random(seed)
    ev = 0
    distinct = set()
    violations = []
    per_class = {}
    samples = []

    def bad(inp, obs, exp, cls):
        key = '|'.join(cls)
        per_class[key] = per_class.get(key, 0) + 1
        if per_class[key] <= 3 and len(violations) < 60:
            violations.append({'input': inp, 'observed': obs, 'expected': exp, 'replay_spec': ['props.c06:replay_bounded', {}],
                               'classes': list(cls)})

    single = {}

    def parse(txt, cfg):
        return pytrs.Tract(txt, trs='154n97w14', parse_qq=True, config=cfg)

    # (a) every element alone, against the table (default depth) — the absolute anchor of the relative rule below
    for el in ELEMENTS:
        for cfg in ('', 'suppress_lot_divs'):
            t = parse(el[0], cfg)
            ev += 1
            want_lots = el[3] if cfg else el[2]
            if t.lots != want_lots or t.qqs != el[4] or t.lot_acres != el[5] or t.aliquots_whole != el[6] or t.w_flags:
                bad({'text': el[0], 'config': cfg}, [t.lots, t.qqs, t.lot_acres, t.aliquots_whole, t.w_flags],
                    [want_lots, el[4], el[5], el[6], []], [])
    n_draws = 2500 if tier == 'quick' else 40000
    seqs = []
    # every ordered pair under every separator, then random sequences of 3..4
    for a, b in itertools.product(range(len(ELEMENTS)), repeat=2):
        for sep in SEPARATORS:
            seqs.append(([a, b], [sep]))
    for _ in range(n_draws):
        k = rng.choice([3, 3, 4])
        seqs.append(([rng.randrange(len(ELEMENTS)) for _ in range(k)], [rng.choice(SEPARATORS) for _ in range(k - 1)]))
    for idxs, seps in seqs:
        els = [ELEMENTS[i] for i in idxs]
        kinds = [e[1] for e in els]
        txt = els[0][0] + ''.join(s + e[0] for s, e in zip(seps, els[1:]))
        cfg = rng.choice(DEPTHS)
        if rng.random() < 0.4:
            cfg = (cfg + ',' if cfg else '') + 'suppress_lot_divs'
        suppress = 'suppress_lot_divs' in cfg
        cls = finding_class(kinds, seps)
        distinct.add((txt, cfg))
        key = cfg
        want_lots, want_qqs, want_whole, want_acres, stated = [], [], [], {}, {}
        qqs_plain, qqs_all = [], []
        for e in els:
            if (e[0], key) not in single:
                single[(e[0], key)] = parse(e[0], cfg)
            s = single[(e[0], key)]
            want_lots += s.lots
            want_qqs += s.qqs
            if e[1] == 'all':
                qqs_all += s.qqs
            else:
                qqs_plain += s.qqs
            want_whole += s.aliquots_whole
            for lot, ac in s.lot_acres.items():
                want_acres[lot] = ac
                stated.setdefault(lot, set()).add(ac)
        t = parse(txt, cfg)
        ev += 1
        inp = {'text': txt, 'config': cfg}
        lots_exempt = 'line break alone between an aliquot chain and a lot group' in cls
        if t.lots != want_lots:
            # the recorded ALL / aliquot-aliquot defects do not touch the lots: a wrong lot list there is a new violation
            bad(inp, {'lots': t.lots}, {'lots': want_lots}, cls if lots_exempt else [])
            continue
        if t.qqs != want_qqs:
            if cls == ['ALL written before another aliquot chain'] and t.qqs != qqs_plain + qqs_all:
                # the recorded defect is the *position* of ALL's aliquots (reported last); anything else is a new violation
                bad(inp, {'qqs': t.qqs}, {'qqs': want_qqs}, [])
            else:
                bad(inp, {'qqs': t.qqs}, {'qqs': want_qqs}, cls)
            continue
        if t.aliquots_whole != want_whole:
            bad(inp, {'aliquots_whole': t.aliquots_whole}, {'aliquots_whole': want_whole}, cls)
        # a stated acreage is attributed to its lot (which of two acreages stated for the same lot wins is not part of the statement)
        if set(t.lot_acres) != set(want_acres) or any(t.lot_acres[k] not in stated[k] for k in t.lot_acres):
            bad(inp, {'lot_acres': t.lot_acres}, {'lot_acres (any stated value per lot)': {k: sorted(v) for k, v in stated.items()}}, cls)
        if t.lots_qqs != t.lots + t.qqs:
            bad(inp, {'lots_qqs': t.lots_qqs}, {'lots_qqs': t.lots + t.qqs}, cls)
        if t.ilots != [int(x.split('L')[-1]) for x in want_lots]:
            bad(inp, {'ilots': t.ilots}, 'the numbers of ' + repr(want_lots), cls)
        if any(f.startswith('dup_lot<') for f in t.w_flags) != (len(set(want_lots)) != len(want_lots)):
            bad(inp, {'w_flags': t.w_flags}, 'dup_lot warning iff a lot occurs twice in ' + repr(want_lots), cls)
        if any(f.startswith('dup_qq<') for f in t.w_flags) != (len(set(want_qqs)) != len(want_qqs)):
            bad(inp, {'w_flags': t.w_flags}, 'dup_qq warning iff an aliquot occurs twice in ' + repr(want_qqs), cls)
        if not suppress and len(samples) < 4 and len(els) == 3 and 'div' in kinds and 'aliq' in kinds:
            samples.append({'text': txt, 'config': cfg, 'lots': t.lots, 'qqs': t.qqs})
    return {'evaluations': ev, 'distinct_nontrivial': len(distinct), 'violations': violations, 'samples': samples, 'exhaustive': False,
            'bound': f"{len(ELEMENTS)} elements alone x suppress_lot_divs; every ordered pair x {len(SEPARATORS)} separators; {n_draws} random "
                     "sequences of 3-4 elements x separators; one of 9 depth settings and suppress_lot_divs drawn per sequence",
            'rule': "real Tract(joined) vs concatenation of real Tract(element) results (lots, qqs, aliquots_whole, acreage of every lot "
                    "is one stated for it, lots_qqs, ilots, dup warnings iff duplicates); elements alone vs a hand-written table"}


def replay_bounded(model):
    """re-run one joined description against the concatenation of its elements on the tree under check"""
    import re
    import pytrs
    txt, cfg = model['text'], model.get('config', '')
    parts = [x for x in re.split('|'.join(re.escape(s) for s in sorted(SEPARATORS, key=len, reverse=True)), txt)]
    # split only at separators that sit between two table elements
    known = {e[0] for e in ELEMENTS}
    els, cur = [], ''
    pos = 0
    toks = re.split('(' + '|'.join(re.escape(s) for s in sorted(SEPARATORS, key=len, reverse=True)) + ')', txt)
    for tok in toks:
        cand = cur + tok
        if cand in known and not any(k.startswith(cand) and k != cand and txt[pos:].startswith(k) for k in known):
            els.append(cand)
            cur = ''
        elif cur == '' and tok in SEPARATORS:
            pass
        else:
            cur = cand
        pos += len(tok)
    if cur:
        return {'confirmed': False, 'detail': 'could not split the text into table elements: ' + repr(parts)}

    def parse(t):
        return pytrs.Tract(t, trs='154n97w14', parse_qq=True, config=cfg)
    singles = [parse(e) for e in els]
    t = parse(txt)
    want_lots = [x for s_ in singles for x in s_.lots]
    want_qqs = [x for s_ in singles for x in s_.qqs]
    ok = t.lots == want_lots and t.qqs == want_qqs
    return {'confirmed': not ok, 'detail': {'elements': els, 'lots': t.lots, 'want_lots': want_lots, 'qqs': t.qqs, 'want_qqs': want_qqs,
                                            'w_flags': t.w_flags, 'lot_acres': t.lot_acres}}


def bounded(tier, seed):
    return [{'name': 'C06-bounded-elements', 'run': lambda: _bounded_elements(tier, seed)}]
