"""C09 — every tract is well-formed and traceable to its source.

Functions under contract: PLSSParser.construct_tracts (with __init__ / parse around it), ChunkParser marker walk as far as it
stages (twprge, sec) pairs, Tract.__init__ (trs, orig_desc, source, orig_index hand-over), Tract.trs setter; the decomposition
of the TRS string into twp/rge/sec attributes is C12's `decomposes` obligation.  Regex layer: abstraction contracts.
"""
from pyvc.api import Unit, Int, Bool, Str, Opt, OneOf, Const, Choice, ObjT, Contract, FixedList
from pyvc.spec import implies, iff, in_re
from props import plss_stubs
from props.c10 import ARRANGEMENTS

ASSUMPTIONS = [
    "C09: abstract match view (seven arrangements of ghost matches whose values are standard Twp/Rge and two-digit sections, as "
    "unpack_twprge / SecUnpacker produce them: C08 / C05); the attribute decomposition rests on C12",
]
STD_OR_ERROR = r'(\d{1,3}[ns]\d{1,3}[ew]|XXXzXXXz)(\d{2}|XX)'


def _setup(ip, env):
    from pyvc import models
    from pytrs.parser.plssdesc import plss_parse
    tw, sc = ARRANGEMENTS[env['arrangement']]
    plss_stubs.install(ip, twprge_matches=tw, sec_matches=sc, layout_oracle=env.get('deduced'), pp_identity=False, pp_len_min=60)
    models.register_model(plss_parse.cleanup_desc, lambda ip_, a, k, n: plss_stubs.g_str('G_cleanup', a[0]))


def make_parser(text, layout, source, sec_within):
    from pytrs.parser.plssdesc.plss_parse import PLSSParser
    return PLSSParser(text, layout=layout, source=source, sec_within=sec_within, handed_down_config='')


def tracts_traceable(p, text, source):
    ts = p.tracts._elements
    return (
        len(ts) >= 1
        and all([ts[n].orig_index == n for n in range(len(ts))])
        and all([t.orig_desc == text and t.source == source for t in ts])
        # standard or error placeholders, never the 'undefined' placeholder
        and all([in_re(t.trs, STD_OR_ERROR) for t in ts])
        and all([t.twprge + t.sec == t.trs and not t.trs_is_undef() for t in ts])
    )


def _unit(arr):
    return Unit(
        name=f'C09/PLSSParser[tracts, {arr}]', prop='C09', target='props.c09:make_parser',
        params={'text': Str(), 'layout': Const(None), 'source': Opt(Str()), 'sec_within': Bool()},
        ghost={'arrangement': Const(arr),
               'deduced': Choice(Const('TRS_desc'), Const('desc_STR'), Const('S_desc_TR'), Const('TR_desc_S'), Const('copy_all'))},
        setup_params=_setup,
        ensures=[('well_formed_and_traceable', lambda text, source, result: tracts_traceable(result, text, source))])


def new_tract(desc, trs, source, orig_desc, orig_index):
    from pytrs import Tract
    return Tract(desc, trs, source=source, orig_desc=orig_desc, orig_index=orig_index)


def _tract_init_unit():
    from props import c14
    return Unit(name='C09/Tract.__init__[records its source]', prop='C09', target='props.c09:new_tract',
                params={'desc': Str(), 'trs': Choice(Const('154n97w14'), Const('XXXzXXXzXX'), Const('154n97wXX'), Const(None)),
                        'source': Opt(Str()), 'orig_desc': Opt(Str()), 'orig_index': Int()},
                setup_params=c14._install_stubs,
                ensures=[('records', lambda desc, trs, source, orig_desc, orig_index, result:
                          result.desc == desc and result.source == source and result.orig_desc == orig_desc
                          and result.orig_index == orig_index and result.trs == (trs if trs is not None else '___z___z__')
                          and result.twprge + result.sec == result.trs)])


def units():
    from pyvc.api import borrow
    from props import c12
    # 'twp, rge, sec, number and direction attributes are exactly the decomposition of the string': the contract of
    # TRS.trs_to_dict on standard-form / placeholder strings (C12's `decomposes` clause) is a callee contract of this property
    return ([_unit(a) for a in ARRANGEMENTS] + [_tract_init_unit()]
            + borrow(c12._to_dict_units(), 'C09', keep=lambda u: 'standard form' in u.name))


# ======================================================================================================================
# bounded stand-in
# ======================================================================================================================
def check_tracts(d, text, source):
    import re
    from pytrs import TRS
    for n, t in enumerate(d.tracts):
        if not re.fullmatch(r'(\d{1,3}[ns]|XXXz)(\d{1,3}[ew]|XXXz)(\d{2}|XX)', t.trs):
            return f"tract {n}: trs {t.trs!r} is neither standard nor error-placeholder form"
        ref = TRS(t.trs)
        got = (t.twp, t.rge, t.sec, t.twp_num, t.twp_ns, t.rge_num, t.rge_ew, t.sec_num, t.twprge)
        want = (ref.twp, ref.rge, ref.sec, ref.twp_num, ref.twp_ns, ref.rge_num, ref.rge_ew, ref.sec_num, ref.twprge)
        if got != want or t.twp + t.rge + t.sec != t.trs or t.twprge != t.twp + t.rge:
            return f"tract {n}: attributes {got} are not the decomposition of {t.trs!r}"
        if t.twp_num is not None and (str(t.twp_num) + t.twp_ns != t.twp):
            return f"tract {n}: twp {t.twp!r} vs ({t.twp_num}, {t.twp_ns})"
        if t.sec_num is not None and f"{t.sec_num:02d}" != t.sec:
            return f"tract {n}: sec {t.sec!r} vs {t.sec_num}"
        if t.orig_desc != text or t.source != source or t.orig_index != n:
            return f"tract {n}: orig_desc/source/orig_index = {t.orig_desc!r:.40}/{t.source!r}/{t.orig_index}"
    return None


def _bounded_tracts(tier, seed):
    import random
    import warnings
    import pytrs
    from props import gen
    warnings.simplefilter('ignore')
    rng = random.Random(seed)
    ev = 0
    distinct = set()
    violations = []
    samples = []
    texts = []
    for desc in gen.abstract_descriptions(rng, 60 if tier == 'quick' else 500):
        texts.append(gen.render(desc, rng.choice(gen.LAYOUTS), twp_style=rng.randrange(6), sec_word=rng.choice(gen.SEC_WORDS),
                                colon=rng.random() < 0.7, sep=rng.choice([', ', '; ', '\n'])))
    texts += gen.token_soup(rng, 200 if tier == 'quick' else 2000)
    texts += ['T154N-R97W Sec 100: NE/4', 'T1o4N-R97W Sec 14: NE/4', 'T154N-R97W Sec 1-3: NE/4', 'T0N-R0W Sec 0: x', 'T999S-R999E Sec 99: x',
              'T1234N-R97W Sec 14: x', 'Sec 14', 'T154N-R97W', '']
    cfgs = gen.configs(rng, 6 if tier == 'quick' else 25)
    for text in texts:
        for cfg in cfgs:
            for wait in (False, True):
                try:
                    d = pytrs.PLSSDesc(text, config=cfg, source='src-1', wait_to_parse=wait)
                    if wait:
                        d.parse()
                        d.parse()
                except Exception:
                    continue        # C03
                ev += 1
                distinct.add((text, cfg))
                p = check_tracts(d, text, 'src-1')
                if p and len(violations) < 10:
                    violations.append({'input': {'text': text, 'config': cfg, 'wait_to_parse': wait}, 'observed': p,
                                       'expected': 'standard-or-error TRS, attributes = decomposition, source recorded', 'replay_spec': None})
        if len(samples) < 2 and text:
            samples.append({'text': text[:60]})
    return {'evaluations': ev, 'distinct_nontrivial': len(distinct), 'violations': violations, 'samples': samples, 'exhaustive': False,
            'bound': f"{len(texts)} texts (rendered descriptions, token soup, boundary numbers) x {len(cfgs)} configurations x first / repeated parse",
            'rule': "every tract of every description: trs in standard-or-error form, attributes equal the decomposition, orig_desc / "
                    "source / orig_index recorded; non-trivial = distinct (text, config)"}


def bounded(tier, seed):
    return [{'name': 'C09-bounded-tracts', 'run': lambda: _bounded_tracts(tier, seed)}]
