"""C10 — flags are well-typed, shared with tracts, and raised whenever warranted.

Functions under contract: PLSSParser.__init__ / parse / construct_tracts / check_error_tracts / hand_down_flags /
check_sec_within_tracts, ChunkParser.parse_safe / parse_chunk / find_matches / get_next_sec / get_next_twprge /
_parse_meaningful / _parse_copyall, PLSSDesc.desc_is_flawed, Tract.desc_is_flawed.  The regex layer (finders, unpackers,
gen_flags_chunk, preprocessors, cleanup_desc) is behind abstraction contracts and checked by the bounded tier.
"""
from pyvc.api import Unit, Int, Bool, Str, Opt, OneOf, Const, Choice, ObjT, Contract, FixedList, Tup
from pyvc.spec import implies, iff, in_re
from props import plss_stubs

ASSUMPTIONS = [
    "C10: abstract match view (ghost match lists in seven arrangements, finder flags symbolic); cleanup_desc, preprocessors and "
    "gen_flags_chunk are abstraction contracts; trigger phrases are covered by the bounded tier only",
]

T1 = ('TWPRGE', '154n97w', 0, 10)
T2 = ('TWPRGE', '155n97w', 30, 40)
ARRANGEMENTS = {
    'TRS_desc: T S S': ([T1], [('SEC', ['14'], 11, 17), ('SEC', ['15', '16'], 30, 36)]),
    'TRS_desc: T S+S S': ([T1], [('SEC', ['14', '15'], 11, 17), ('SEC', ['16'], 30, 36)]),       # a multi-section block that is not the last
    'desc_STR: S T': ([('TWPRGE', '154n97w', 20, 30)], [('SEC', ['14'], 5, 11)]),
    'S_desc_TR: S S T': ([('TWPRGE', '154n97w', 40, 50)], [('SEC', ['14'], 0, 6), ('SEC', ['15'], 20, 26)]),
    'two groups: T S T S': ([T1, T2], [('SEC', ['14'], 11, 17), ('SEC', ['01'], 41, 47)]),
    'twprge only': ([T1], []),
    'sec only': ([], [('SEC', ['14'], 3, 9)]),
    'nothing': ([], []),
}


def _setup(ip, env):
    from pyvc import models
    from pytrs.parser.plssdesc import plss_parse
    tw, sc = ARRANGEMENTS[env['arrangement']]
    plss_stubs.install(ip, twprge_matches=tw, sec_matches=sc, finder_flags=([env['fflag']], [(env['fflag'], env['fline'])]),
                       layout_oracle=env.get('deduced'), pp_identity=False, pp_len_min=60)
    models.register_model(plss_parse.cleanup_desc, lambda ip_, a, k, n: plss_stubs.g_str('G_cleanup', a[0]))


def make_parser(text, layout, sec_within, clean_up):
    from pytrs.parser.plssdesc.plss_parse import PLSSParser
    return PLSSParser(text, layout=layout, sec_within=sec_within, clean_up=clean_up, handed_down_config='')


def is_flag_list(flags, lines):
    return (len(flags) == len(lines)
            and all([isinstance(f, str) for f in flags])
            and all([isinstance(l, tuple) and len(l) == 2 and isinstance(l[0], str) and isinstance(l[1], str) for l in lines])
            and all([lines[n][0] == flags[n] for n in range(len(flags))]))


def ends_with(big, small):
    return len(big) >= len(small) and all([big[len(big) - len(small) + n] == small[n] for n in range(len(small))])


def flags_ok(p):
    ts = p.tracts._elements
    return (
        is_flag_list(p.w_flags, p.w_flag_lines) and is_flag_list(p.e_flags, p.e_flag_lines)
        and all([is_flag_list(t.w_flags, t.w_flag_lines) and is_flag_list(t.e_flags, t.e_flag_lines) for t in ts])
        # every flag of the description is present on each tract
        and all([ends_with(t.w_flags, p.w_flags) and ends_with(t.e_flags, p.e_flags)
                 and ends_with(t.w_flag_lines, p.w_flag_lines) and ends_with(t.e_flag_lines, p.e_flag_lines) for t in ts])
        # an undecipherable Twp/Rge/Sec on any tract => error flag on the description
        and implies(any([t.trs_is_error() for t in ts]), len(p.e_flags) >= 1)
        and len(ts) >= 1
    )


def _flags_unit(arr):
    return Unit(
        name=f'C10/PLSSParser[flags, {arr}]', prop='C10', target='props.c10:make_parser',
        params={'text': Str(), 'layout': Const(None), 'sec_within': Bool(), 'clean_up': Const(None)},
        ghost={'arrangement': Const(arr), 'fflag': Str(), 'fline': Str(),
               'deduced': Choice(Const('TRS_desc'), Const('desc_STR'), Const('S_desc_TR'), Const('TR_desc_S'), Const('copy_all'))},
        requires=lambda text: len(text) >= 60,
        setup_params=_setup,
        ensures=[('flags_well_typed_paired_and_shared', lambda result: flags_ok(result))])


def flawed_iff_error_flag(obj):
    return obj.desc_is_flawed


def _flawed_units():
    from props.shapes import Native
    import pytrs
    return [
        Unit(name='C10/PLSSDesc.desc_is_flawed', prop='C10', target='props.c10:flawed_iff_error_flag',
             params={'obj': Native(lambda: pytrs.PLSSDesc('T154N-R97W Sec 14: NE/4', wait_to_parse=True),
                                   e_flags=Choice(FixedList(), FixedList(Str()), FixedList(Str(), Str())))},
             ensures=[('exactly_when_an_error_flag_exists', lambda obj, result: iff(result, len(obj.e_flags) > 0))]),
        Unit(name='C10/Tract.desc_is_flawed', prop='C10', target='props.c10:flawed_iff_error_flag',
             params={'obj': Native(lambda: pytrs.Tract('NE/4', trs='154n97w14'),
                                   e_flags=Choice(FixedList(), FixedList(Str())))},
             ensures=[('exactly_when_an_error_flag_exists', lambda obj, result: iff(result, len(obj.e_flags) > 0))]),
    ]


def _reparse_unit():
    """the flags handed down by the description stay on the tract when the tract is parsed again"""
    from props import c14
    return Unit(name='C10/Tract.parse[handed-down flags survive a re-parse]', prop='C10', target='props.c14:parse_twice',
                params={'t': c14._tract_shape()}, setup_params=c14._install_stubs,
                ensures=[('inherited_flags_still_present', lambda t, old_t:
                          all([sum([1 for f in getattr(t, a) if f == getattr(old_t, a)[0]]) >= 1
                               for a in ('w_flags', 'w_flag_lines', 'e_flags', 'e_flag_lines')])
                          and is_flag_list_loose(t.w_flags, t.w_flag_lines))])


def is_flag_list_loose(flags, lines):
    return len(flags) == len(lines)


# ---- gen_flags_chunk over an abstract view of the five wording patterns ---------------------------------------------------------------

class WordingMatch:
    _pyvc_sym = True

    def __init__(self, s, e):
        self.s, self.e = s, e

    def start(self, n=0):
        return self.s

    def end(self, n=0):
        return self.e


class WordingPattern:
    """abstraction of one of well_regex / depth_regex / including_regex / less_except_regex / isfa_regex: `search` returns the first
    ghost match that lies inside [pos, endpos] (what re's search does when the text has exactly these matches)"""
    _pyvc_sym = True

    def __init__(self, spans):
        self.spans = spans

    def search(self, text, pos=0, endpos=None):
        for a, b in self.spans:
            if a >= pos and (endpos is None or b <= endpos):
                return WordingMatch(a, b)
        return None


class FlagSink:
    _pyvc_sym = True

    def __init__(self):
        self.w_flags = []
        self.w_flag_lines = []


WORDING = (('well_regex', 'well', 5, 25), ('depth_regex', 'depth', 10, 20), ('including_regex', 'including', 0, 40),
           ('less_except_regex', 'less_except', 0, 40), ('isfa_regex', 'insofar', 0, 40))
CHUNK_LEN = 120
WORDING_VIEWS = {
    'one phrase': {'well_regex': [(50, 58)]},
    'two kinds, exception first': {'less_except_regex': [(10, 25)], 'well_regex': [(40, 48)]},
    'two kinds, well first': {'well_regex': [(10, 14)], 'less_except_regex': [(40, 55)]},
    'two kinds, inclusion before depth': {'including_regex': [(5, 14)], 'depth_regex': [(60, 82)]},
    'same kind twice, close (one context)': {'including_regex': [(10, 19), (30, 39)]},
    'same kind twice, far apart (two contexts)': {'well_regex': [(5, 9), (100, 104)]},
    'phrase at the very start of the chunk': {'depth_regex': [(0, 10)]},
    'phrase at the very end of the chunk': {'isfa_regex': [(110, 120)]},
    'all five kinds': {'isfa_regex': [(0, 7)], 'well_regex': [(20, 28)], 'less_except_regex': [(45, 60)], 'depth_regex': [(70, 92)],
                       'including_regex': [(100, 109)]},
    'none': {},
}


def expected_contexts(view):
    """the statement, over the ghost matches: per kind (in the order of the table) one warning per stretch of wording, a stretch being
    a match plus every further match of the same kind that ends within the right-hand context of the previous one; its context runs
    from `left` characters before the first match to `right` characters after the last one (clipped to the chunk)"""
    out = []
    for name, flag, left, right in WORDING:
        spans = list(view.get(name, []))
        pos = 0
        while True:
            first = next(((a, b) for a, b in spans if a >= pos), None)
            if first is None:
                break
            last = first
            while True:
                nxt = next(((a, b) for a, b in spans if a >= last[1] and b <= min(CHUNK_LEN, last[1] + right)), None)
                if nxt is None:
                    break
                last = nxt
            i, j = max(0, first[0] - left), min(last[1] + right, CHUNK_LEN)
            out.append((flag, i, j, last[1] + right))
            pos = j
    # the clause of the property itself: the triggering words (the first match of every kind present) lie inside a context of
    # that kind
    for name, flag, left, right in WORDING:
        for a, b in list(view.get(name, []))[:1]:
            assert any(f == flag and i <= a and b <= j for f, i, j, _ in out), (name, out)
    return out


expected_contexts.__pyvc_native__ = True


def _wording_setup(ip, env):
    from pytrs.parser.plssdesc import plss_parse
    view = WORDING_VIEWS[env['view']]
    for name, flag, left, right in WORDING:
        ip.overlay[(id(plss_parse.__dict__), name)] = WordingPattern(list(view.get(name, [])))
    ip.ctx.assumed.append('abstraction:the five wording patterns return the ghost matches of the view (search with pos / endpos)')


def run_gen_flags(chunk):
    from pytrs.parser.plssdesc.plss_parse import ChunkParser
    sink = FlagSink()
    ChunkParser.gen_flags_chunk(None, chunk, sink)
    return sink


def wording_flags_ok(sink, chunk, view):
    exp = expected_contexts(WORDING_VIEWS[view])
    return (len(sink.w_flags) == len(exp) and len(sink.w_flag_lines) == len(exp)
            and all([sink.w_flags[k] == exp[k][0] for k in range(len(exp))])
            # (the right end is written as the code computes it, min(end + right, len(chunk)), so that both sides are the same term)
            and all([sink.w_flag_lines[k] == (exp[k][0], '<' + chunk[exp[k][1]:min((exp[k][3], len(chunk)))].replace('\n', ' ').strip() + '>')
                     for k in range(len(exp))]))


def _wording_units():
    return [Unit(name=f'C10/gen_flags_chunk[{v}]', prop='C10', target='props.c10:run_gen_flags',
                 params={'chunk': Str()}, ghost={'view': Const(v)}, requires=lambda chunk: len(chunk) == CHUNK_LEN,
                 setup_params=_wording_setup,
                 ensures=[('one_warning_per_stretch_of_wording_with_the_words_in_its_context',
                           lambda chunk, view, result: wording_flags_ok(result, chunk, view))])
            for v in WORDING_VIEWS]


def units():
    from pyvc.api import borrow
    from props import c20
    # the flags SecFinder itself raises (colon modes, second pass) are part of 'flags are paired one-to-one with their lines'
    return [_flags_unit(a) for a in ARRANGEMENTS] + _flawed_units() + [_reparse_unit()] + borrow(c20._finder_units(), 'C10') + _wording_units()


# ======================================================================================================================
# bounded stand-in
# ======================================================================================================================
TRIGGERS = {
    'less_except': ['less and except', 'LESS AND EXCEPT', 'less & except', 'excepting', 'except'],
    'insofar': ['insofar as', 'INSOFAR', 'only insofar'],
    'including': ['including', 'Including'],
    'depth': ['surface to the base of', 'from the surface', 'depths', 'formation', 'top of the'],
    'well': ['wellbore', 'well bore', 'well', 'Wellbore'],
}


def _typed(obj):
    for fl, ln in ((obj.w_flags, obj.w_flag_lines), (obj.e_flags, obj.e_flag_lines)):
        if len(fl) != len(ln):
            return f"{len(fl)} flags vs {len(ln)} flag lines"
        for f in fl:
            if not isinstance(f, str):
                return f"flag {f!r} is not a str"
        for n, l in enumerate(ln):
            if not (isinstance(l, tuple) and len(l) == 2 and all(isinstance(x, str) for x in l)):
                return f"flag line {l!r} is not a (str, str) tuple"
            if l[0] != fl[n]:
                return f"flag line {l!r} not paired with flag {fl[n]!r}"
    return None


def _contains_sublist(big, small):
    it = iter(big)
    return all(any(x == y for y in it) for x in small)


def check_desc(d):
    """flag invariants of one parsed description; returns a problem string or None"""
    p = _typed(d)
    if p:
        return 'description: ' + p
    for t in d.tracts:
        p = _typed(t)
        if p:
            return f'tract {t.trs}: ' + p
        for a in ('w_flags', 'e_flags', 'w_flag_lines', 'e_flag_lines'):
            if not _contains_sublist(getattr(t, a), getattr(d, a)):
                return f'tract {t.trs}: {a} of the description not all present: {getattr(d, a)} vs {getattr(t, a)}'
    if d.desc_is_flawed != (len(d.e_flags) > 0):
        return 'desc_is_flawed disagrees with e_flags'
    if any(t.trs_is_error() for t in d.tracts) and not d.e_flags:
        return 'a tract has an error TRS but the description has no error flag'
    return None


def _bounded_flags(tier, seed):
    import random
    import re
    import warnings
    import pytrs
    from props import gen
    warnings.simplefilter('ignore')
    rng = random.Random(seed)
    ev = 0
    distinct = set()
    violations = []
    samples = []

    def bad(inp, obs, exp):
        if len(violations) < 10:
            violations.append({'input': inp, 'observed': obs, 'expected': exp, 'replay_spec': None})
    n_desc = 60 if tier == 'quick' else 400
    descs = gen.abstract_descriptions(rng, n_desc, blocks=('NE/4', 'Lots 1 - 3, S/2NE/4', 'That part of the NE/4 lying north of the river', 'ALL'))
    cfgs = ['', 'parse_qq', 'segment', 'sec_within', 'sec_colon_cautious', 'sec_colon_required', 'ocr_scrub,parse_qq', 'copy_all']
    for desc in descs:
        layout = rng.choice(gen.LAYOUTS)
        style = rng.choice([0, 1, 2, 4, 5])
        colon = rng.random() < 0.7
        text = gen.render(desc, layout, twp_style=style, sec_word=rng.choice(gen.SEC_WORDS), colon=colon, sep=rng.choice([', ', '; ', '\n']))
        # (1) typing / sharing on the plain and on damaged variants
        toks = text.split(' ')
        variants = [text]
        if len(toks) > 3:
            k = rng.randrange(len(toks))
            variants.append(' '.join(toks[:k] + toks[k + 1:]))
            variants.append(' '.join(toks[:k] + ['T155N-R98W'] + toks[k:]))
        for v in variants:
            for cfg in cfgs:
                try:
                    d = pytrs.PLSSDesc(v, config=cfg)
                except Exception:
                    continue        # totality is C03
                ev += 1
                distinct.add((v, cfg))
                p = check_desc(d)
                if p:
                    bad({'text': v, 'config': cfg}, p, 'well-typed, paired, shared flags')
                if cfg in ('parse_qq', 'segment'):
                    d.parse_tracts()
                    d.parse_tracts(qq_depth=1)
                    p = check_desc(d)
                    ev += 1
                    if p:
                        bad({'text': v, 'config': cfg, 'then': 'parse_tracts() twice'}, p, 'flags still shared after re-parsing the tracts')
        # (2) trigger phrases at token boundaries
        for kind, phrases in TRIGGERS.items():
            phrase = rng.choice(phrases)
            blocks_at = [m.start() for m in re.finditer(r'(?<=[:,;] )|(?<= of )', text)] or [0]
            pos = rng.choice(blocks_at)
            # place the phrase inside a description block: right after a block starts
            t2 = text[:pos] + phrase + ' the ' + text[pos:]
            for cfg in ('', 'segment', 'sec_within', 'copy_all'):
                try:
                    d = pytrs.PLSSDesc(t2, config=cfg)
                except Exception:
                    continue
                ev += 1
                distinct.add((t2, cfg, kind))
                hits = [l for f, l in d.w_flag_lines if f == kind]
                core = phrase.lower().split()[0]
                if not hits or not any(core in l.lower() for l in hits):
                    bad({'text': t2, 'config': cfg, 'trigger': phrase, 'kind': kind}, d.w_flag_lines, f'warning {kind!r} whose context contains {core!r}')
                p = check_desc(d)
                if p:
                    bad({'text': t2, 'config': cfg}, p, 'well-typed, paired, shared flags')
        # (3) two different kinds of wording in the same block, in either order: each kind raises its own warning
        k1, k2 = rng.sample(sorted(TRIGGERS), 2)
        p1, p2 = rng.choice(TRIGGERS[k1]), rng.choice(TRIGGERS[k2])
        blocks_at = [m.start() for m in re.finditer(r'(?<=[:,;] )|(?<= of )', text)] or [0]
        pos = rng.choice(blocks_at)
        t3 = text[:pos] + p1 + ' the Smith #1 ' + p2 + ' the ' + text[pos:]
        for cfg in ('', 'segment', 'copy_all'):
            try:
                d = pytrs.PLSSDesc(t3, config=cfg)
            except Exception:
                continue
            ev += 1
            distinct.add((t3, cfg, k1, k2))
            for kind, phrase in ((k1, p1), (k2, p2)):
                hits = [l for f, l in d.w_flag_lines if f == kind]
                core = phrase.lower().split()[0]
                if not hits or not any(core in l.lower() for l in hits):
                    bad({'text': t3, 'config': cfg, 'triggers': [p1, p2], 'kind': kind}, d.w_flag_lines,
                        f'warning {kind!r} whose context contains {core!r} (two kinds of wording in one block)')
        if len(samples) < 2:
            samples.append({'text': text[:80], 'layout': layout})
    # token soup
    for text in gen.token_soup(rng, 150 if tier == 'quick' else 1500):
        for cfg in ('', 'segment,parse_qq', 'sec_colon_cautious', 'sec_within'):
            try:
                d = pytrs.PLSSDesc(text, config=cfg)
            except Exception:
                continue
            ev += 1
            distinct.add((text, cfg))
            p = check_desc(d)
            if p:
                bad({'text': text, 'config': cfg}, p, 'well-typed, paired, shared flags')
    return {'evaluations': ev, 'distinct_nontrivial': len(distinct), 'violations': violations, 'samples': samples, 'exhaustive': False,
            'bound': f"{n_desc} generated descriptions (4 layouts, spellings) x damaged variants x {len(cfgs)} configs; 5 trigger kinds "
                     "inserted at block starts x 4 configs, and pairs of two different kinds in one block x 3 configs; token soup",
            'rule': "flag typing/pairing/sharing, flawed <=> error flag, error TRS => error flag, trigger phrase => warning with the "
                    "phrase in its context; non-trivial = distinct (text, config)"}


def bounded(tier, seed):
    return [{'name': 'C10-bounded-flags', 'run': lambda: _bounded_flags(tier, seed)}]
