"""Abstraction contracts for the regex layer of plss_parse.py (layer 3 of DESIGN.md: assumed, bounded-checked).

The Python-level logic of PLSSParser / ChunkParser is verified against an *abstract match view*: the lists of matches that
TwpRgeFinder / SecFinder hand to ChunkParser are ghost inputs of the unit; the text-level preprocessors are deterministic
functions of their arguments.  Which matches the real regexes produce on a given text is the business of the bounded tier.
"""
import z3
from pyvc.values import Obj, SV
from pyvc import models


def g_str(name, *args):
    """uninterpreted string-valued function of the (scalar) arguments"""
    from pyvc.values import lift, SOpt
    terms = []

    def as_int(t):
        return z3.If(t, z3.IntVal(1), z3.IntVal(0)) if z3.is_bool(t) else t
    for a in args:
        # representation-independent encoding of a possibly-None scalar: (is-None flag, payload or 0 / "")
        if a is None:
            terms += [z3.IntVal(1), z3.IntVal(0)]
        elif isinstance(a, SOpt):
            pay = as_int(a.v.t)
            zero = z3.StringVal('') if pay.sort() == z3.StringSort() else z3.IntVal(0)
            if pay.sort() == z3.StringSort():
                terms += [z3.If(a.n, z3.IntVal(1), z3.IntVal(0)), z3.If(a.n, zero, pay)]
            else:
                terms += [z3.If(a.n, z3.IntVal(1), z3.IntVal(0)), z3.If(a.n, zero, pay)]
        elif isinstance(a, (SV, int, str, bool)):
            terms += [z3.IntVal(0), as_int(lift(a))]
        else:
            terms.append(z3.IntVal(id(a) % 1000003))
    f = z3.Function(name, *[t.sort() for t in terms], z3.StringSort())
    return SV(f(*terms))


g_str.__pyvc_native__ = True


def cleanup_model(ip_, args, kwargs, node):
    """abstraction of cleanup_desc: a deterministic, idempotent function of the text (idempotence: the function returns a fixed
    point of its own loop body; bounded-checked in C01)"""
    import z3 as _z3
    a = args[0]
    t = a.t if isinstance(a, SV) else None
    if t is not None and _z3.is_app(t) and t.decl().name() == 'G_cleanup':
        return a
    ip_.ctx.assumed.append('abstraction:cleanup_desc is a deterministic idempotent function of the text, never longer than it '
                           '(length fact: proved for every text by C01/cleanup_desc[any text: ...] with a loop invariant)')
    r = g_str('G_cleanup', a)
    if t is not None:
        ip_.ctx.assume(_z3.Length(r.t) <= _z3.Length(t))
    return r


def install(ip, twprge_matches=None, sec_matches=None, finder_flags=((), ()), pp_identity=True, keep_gen_flags=False,
            layout_oracle=None, pp_len_min=None):
    """register the abstraction contracts on this path.
    twprge_matches / sec_matches: lists of match tuples returned by the finders for *any* text they are asked about
    (single-chunk descriptions), or callables text -> list."""
    from pytrs.parser.plssdesc import plss_parse
    from pytrs.parser.plssdesc.plss_parse import TwpRgeFinder, SecFinder, ChunkParser
    from pytrs.parser.plssdesc.plss_preprocess import PLSSPreprocessor
    from pytrs.parser.tract.tract_preprocess import TractPreprocessor

    def finder_model(cls, matches):
        def model(ip_, args, kwargs, node):
            ms = matches(args[0]) if callable(matches) else matches
            ip_.ctx.assumed.append(f'abstraction:{cls.__name__} returns the ghost match list')
            return Obj(cls, {'txt': args[0], 'matches': list(ms or []), 'flags': list(finder_flags[0]),
                             'flag_lines': list(finder_flags[1]), 'layout': args[1] if len(args) > 1 else kwargs.get('layout')})
        return model
    models.register_model(TwpRgeFinder, finder_model(TwpRgeFinder, twprge_matches))
    models.register_model(SecFinder, finder_model(SecFinder, sec_matches))

    def plss_pp(ip_, args, kwargs, node):
        ip_.ctx.assumed.append('abstraction:PLSSPreprocessor (text is a function of its arguments)')
        text = args[0] if pp_identity else g_str('G_plss_pp', *args)
        if not pp_identity and pp_len_min is not None:
            # the ghost match spans lie inside the preprocessed text (part of the abstract match view)
            ip_.ctx.assume(z3.Length(text.t) >= pp_len_min)
        ip_.hooks.setdefault(('pp_text',), []).append(text)
        return Obj(PLSSPreprocessor, {'text': text, 'fixed_twprges': [], 'orig_text': args[0]})
    models.register_model(PLSSPreprocessor, plss_pp)

    def tract_pp(ip_, args, kwargs, node):
        ip_.ctx.assumed.append('abstraction:TractPreprocessor (text is a function of its arguments)')
        cq = args[1] if len(args) > 1 else kwargs.get('clean_qq', False)
        return Obj(TractPreprocessor, {'text': g_str('G_tract_pp', args[0], cq), 'orig_text': args[0]})
    models.register_model(TractPreprocessor, tract_pp)
    if not keep_gen_flags:
        def no_flags(ip_, args, kwargs, node):
            ip_.ctx.assumed.append('abstraction:gen_flags_chunk not executed here (see C10)')
            return None
        models.register_model(ChunkParser.gen_flags_chunk, no_flags)
    if layout_oracle is not None:
        def dl(ip_, args, kwargs, node):
            ip_.ctx.assumed.append('abstraction:deduce_layout returns the ghost layout')
            return layout_oracle
        models.register_model(plss_parse.deduce_layout, dl)
