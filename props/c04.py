"""C04 — no description text is silently dropped.

Under contract (real source): ChunkParser._parse_meaningful / parse_chunk / _parse_copyall (every inter-marker block goes to a
tract or to the unused list), PLSSParser.parse (examine_unused: unused blocks of >= MIN_REPORTABLE_UNUSED_LEN characters are
flagged verbatim), PLSSChunker (blocks cover the text: C20's obligations), rebuild_sec_within (C20), cleanup_desc (C01: only
separators and the six connectives are removed).  The regex layer is an abstraction contract; that a foreign word is never absorbed
into a match is bounded-checked.
"""
from pyvc.api import Unit, Int, Bool, Str, Opt, OneOf, Const, Choice, ObjT, Contract, FixedList
from pyvc.spec import implies, iff, in_re
from props import plss_stubs
from props.c10 import ARRANGEMENTS
from props.c01 import VIEWS, VIEW_LEN

ASSUMPTIONS = [
    "C04: abstract match view (the 8 well-formed views of C01 and the 7 arbitrary arrangements of C10, all deduced layouts); "
    "blocks shorter than MIN_REPORTABLE_UNUSED_LEN (4) are dropped by design and are not 'words' in the sense of the statement",
]
ALL_VIEWS = {('view: ' + k): (v[1], v[2], VIEW_LEN[k]) for k, v in VIEWS.items()}
ALL_VIEWS.update({('arrangement: ' + k): (v[0], v[1], 60) for k, v in ARRANGEMENTS.items()})


def blocks_of(twps, secs, n):
    """maximal stretches of text outside every match span"""
    spans = sorted([(m[2], m[3]) for m in twps + secs])
    out = []
    pos = 0
    for a, b in spans:
        if a > pos:
            out.append((pos, a))
        pos = max(pos, b)
    if n > pos:
        out.append((pos, n))
    return out


blocks_of.__pyvc_native__ = True


def cleaned(s):
    return plss_stubs.g_str('G_cleanup', s)


cleaned.__pyvc_native__ = True


def _setup(ip, env):
    from pyvc import models
    from pytrs.parser.plssdesc import plss_parse
    tw, sc, n = ALL_VIEWS[env['view']]
    plss_stubs.install(ip, twprge_matches=tw, sec_matches=sc, layout_oracle=env['deduced'])
    models.register_model(plss_parse.cleanup_desc, plss_stubs.cleanup_model)


def make_parser(text):
    from pytrs.parser.plssdesc.plss_parse import PLSSParser
    return PLSSParser(text, handed_down_config='')


def nothing_dropped(p, text, view):
    tw, sc, n = ALL_VIEWS[view]
    ts = p.tracts._elements
    whole = any([t.desc == text for t in ts])
    return all([
        whole
        or any([t.desc == cleaned(text[a:b]) for t in ts])
        or (b - a < 4 and True)
        or any([f == 'unused_desc<' + text[a:b] + '>' for f in p.e_flags])
        for a, b in blocks_of(tw, sc, n)])


def _unit(view):
    return Unit(
        name=f'C04/PLSSParser[{view}]', prop='C04', target='props.c04:make_parser', params={'text': Str()},
        ghost={'view': Const(view), 'n': Const(ALL_VIEWS[view][2]),
               'deduced': Choice(Const('TRS_desc'), Const('desc_STR'), Const('S_desc_TR'), Const('TR_desc_S'), Const('copy_all'))},
        requires=lambda text, n: len(text) == n, setup_params=_setup,
        ensures=[('every_block_is_in_a_tract_or_flagged_as_unused', lambda text, view, result: nothing_dropped(result, text, view))])


def _finder_unit():
    """the hand-over between SecFinder and the marker walk: every accepted match carries all (>= 1) unpacked section numbers, so
    that construct_tracts creates at least one tract for the block staged with it"""
    from props import c20
    return Unit(
        name='C04/SecFinder[every match keeps its sections]', prop='C04', target='props.c20:run_finders',
        params={'text': Str(), 'layout': Choice(Const('TRS_desc'), Const('desc_STR')), 'mode': Const(False)},
        ghost={'c1': Bool(), 'c2': Bool(), 'n': Const(2)},
        requires=lambda text: len(text) >= 60 and c20.no_illegal_word_before(text), setup_params=c20._finder_setup,
        ensures=[('matches_carry_their_sections', lambda result:
                  len(result[0][0]) == 2 and result[0][0][0][1] == ['14'] and result[0][0][1][1] == ['15', '16'])])


def units():
    from pyvc.api import borrow
    from props import c20
    # the covering of the text by PLSSChunker's blocks and the re-attachment of unused blocks by rebuild_sec_within are callee
    # contracts of this property (a block that the chunker loses, or that rebuild_sec_within drops, is text silently dropped)
    from props import c01
    # ... and what cleanup_desc may cut from a block (only separators and the six connectives, only at the two ends) is C01's
    return ([_unit(v) for v in ALL_VIEWS] + [_finder_unit()] + borrow(c20._rebuild_units() + c20._chunker_units(), 'C04')
            + borrow(c01._cleanup_units(), 'C04', keep=lambda u: 'never longer' not in u.name))


# ======================================================================================================================
# bounded stand-in: a foreign word inserted at every token boundary
# ======================================================================================================================
def _bounded_foreign_word(tier, seed):
    import random
    import re
    import warnings
    import pytrs
    from props import gen
    warnings.simplefilter('ignore')
    rng = random.Random(seed)
    ev = 0
    distinct = set()
    violations = []
    samples = []
    words = ['ZQXMARKER', 'Quuxfoo', 'xyzzy42', 'BLORP']
    cfgs = ['', 'segment', 'sec_within', 'sec_colon_required', 'sec_colon_cautious', 'TRS_desc', 'desc_STR', 'copy_all', 'segment,sec_within']
    n = 40 if tier == 'quick' else 400
    pm = re.compile(r'(P\.?\s?M|Principal|Meridian)', re.IGNORECASE)
    for desc in gen.abstract_descriptions(rng, n, blocks=gen.BLOCKS[:6]):
        layout = rng.choice(gen.LAYOUTS)
        style = rng.choice([0, 1, 2, 4, 5])
        text = gen.render(desc, layout, twp_style=style, sec_word=rng.choice(gen.SEC_WORDS[:5]), sep=rng.choice([', ', '; ', '\n']),
                          colon=rng.random() < 0.8)
        if rng.random() < 0.3:
            # section numbers beyond 36 are still section references whose text must not vanish
            text = re.sub(r'(?<=Sec )(\d+)', lambda m: str(int(m.group(1)) + 40), text, count=1)
        toks = re.split(r'( )', text)
        variants = [toks]
        if len(toks) > 6:
            k = rng.randrange(0, len(toks), 2)
            variants.append(toks[:k] + toks[k + 2:])                                   # deleted token
            variants.append(toks[:k] + ['T155N-R98W', ' '] + toks[k:])                  # stray Twp/Rge
        for vt in variants:
            positions = list(range(0, len(vt) + 1, 2))
            for pos in (positions if tier == 'thorough' else rng.sample(positions, min(6, len(positions)))):
                w = rng.choice(words)
                t2 = ''.join(vt[:pos]) + w + ' ' + ''.join(vt[pos:])
                # the word must not sit inside a Twp/Rge or section reference (then it is part of a damaged reference)
                for cfg in (cfgs if tier == 'thorough' else rng.sample(cfgs, 4)):
                    try:
                        d = pytrs.PLSSDesc(t2, config=cfg)
                    except Exception:
                        continue        # C03
                    ev += 1
                    distinct.add((t2, cfg))
                    kept = any(w in t.desc for t in d.tracts) or any(w in f for f in d.e_flags)
                    if not kept and len(violations) < 10:
                        violations.append({'input': {'text': t2, 'config': cfg, 'word': w}, 'observed': {'tracts': [(t.trs, t.desc) for t in d.tracts][:4], 'e_flags': d.e_flags},
                                           'expected': 'the word in a tract description or in an unused_desc flag', 'replay_spec': None})
        if len(samples) < 2:
            samples.append({'text': text[:80]})
    return {'evaluations': ev, 'distinct_nontrivial': len(distinct), 'violations': violations, 'samples': samples, 'exhaustive': False,
            'bound': f"{n} generated descriptions x (intact, deleted token, stray Twp/Rge) x token boundaries x parse modes",
            'rule': "a foreign word inserted at a token boundary appears in some tract description or in an unused_desc error flag; "
                    "non-trivial = distinct (text, config)"}


def bounded(tier, seed):
    return [{'name': 'C04-bounded-foreign-word', 'run': lambda: _bounded_foreign_word(tier, seed)}]
