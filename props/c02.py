"""C02 — aliquot parsing tiles exactly the described area at the requested depth.

Functions under contract: the six functions of pytrs/parser/tract/aliquot_parse.py (parse_aliquot, pass_back_halves,
combine_consecutive_halves, standardize_aliquot_components, rebuild_aliquots, subdivide_aliquot) and the tables
QQ_SUBDIVIDE_DEFINITIONS / QQ_SAME_AXIS.
"""
from fractions import Fraction as F

from pyvc.api import Unit, Int, Bool, Str, Opt, OneOf, Const, Choice, ListOf, FixedList
from pyvc.spec import implies, iff, in_re

MOD = 'pytrs.parser.tract.aliquot_parse'
HALVES = ('N', 'S', 'E', 'W')
QUARTERS = ('NE', 'NW', 'SE', 'SW')
COMPONENTS = HALVES + QUARTERS

ASSUMPTIONS = [
    "C02: the list functions are verified for every chain of <= 3 components symbolically (all 8^k chains at once per k); "
    "longer chains and the rebuilt piece strings are covered by the exhaustive bounded oracle only",
]

# ---- geometric spec (native; exact rationals) --------------------------------------------------------------------
# a rectangle is (x0, x1, y0, y1) inside the unit square; a component maps a rectangle to a sub-rectangle
_AXIS = {'N': ('y', 1), 'S': ('y', 0), 'E': ('x', 1), 'W': ('x', 0)}


def _halve(rect, axis, upper):
    x0, x1, y0, y1 = rect
    if axis == 'x':
        m = (x0 + x1) / 2
        return (m, x1, y0, y1) if upper else (x0, m, y0, y1)
    m = (y0 + y1) / 2
    return (x0, x1, m, y1) if upper else (x0, x1, y0, m)


def halvings(comp):
    """the axis halvings a component denotes"""
    if comp == 'ALL':
        return []
    if comp in HALVES:
        return [_AXIS[comp]]
    return [_AXIS[comp[0]], _AXIS[comp[1]]]


def region(chain_smallest_first, max_depth=None):
    """region of a chain written as in a description (smallest part first, e.g. ['N','SW','NE'] for N½SW¼NE¼);
    with max_depth, halvings beyond that depth on each axis are ignored"""
    rect = (F(0), F(1), F(0), F(1))
    count = {'x': 0, 'y': 0}
    for comp in reversed(chain_smallest_first):
        for axis, upper in halvings(comp):
            if max_depth is not None and count[axis] >= max_depth:
                continue
            rect = _halve(rect, axis, upper)
            count[axis] += 1
    return rect


def tokens_of(piece):
    """'E2NWSE' -> ['E', 'NW', 'SE'] (smallest first); None if the piece is not a token sequence"""
    out = []
    i = 0
    while i < len(piece):
        two = piece[i:i + 2]
        if two in QUARTERS:
            out.append(two)
            i += 2
        elif len(two) == 2 and two[0] in HALVES and two[1] == '2':
            out.append(two[0])
            i += 2
        elif piece[i:i + 3] == 'ALL':
            out.append('ALL')
            i += 3
        else:
            return None
    return out


def area(r):
    return (r[1] - r[0]) * (r[3] - r[2])


def inside(a, b):
    return b[0] <= a[0] and a[1] <= b[1] and b[2] <= a[2] and a[3] <= b[3]


def overlap(a, b):
    return min(a[1], b[1]) > max(a[0], b[0]) and min(a[3], b[3]) > max(a[2], b[2])


def check_pieces(chain, pieces, dmin, dmax, break_halves):
    """the statement of C02 for one chain and one depth setting; returns a list of problems"""
    probs = []
    target = region(chain, dmax)
    rects = []
    for p in pieces:
        toks = tokens_of(p)
        if toks is None:
            return [f"piece {p!r} is not a sequence of aliquot tokens"]
        rects.append(region(toks))
        largest_first = toks[::-1]
        quarters_needed = dmin if dmin is not None else 0
        if len(largest_first) < quarters_needed or any(t not in QUARTERS for t in largest_first[:quarters_needed]):
            probs.append(f"piece {p!r} is not divided to the minimum depth {dmin}")
        if dmax is not None and dmax >= (dmin or 0) and len([t for t in toks if t != 'ALL']) > dmax:
            probs.append(f"piece {p!r} is divided beyond the maximum depth {dmax}")
        if break_halves and any(t in HALVES for t in toks):
            probs.append(f"piece {p!r} contains a half although break_halves is on")
    for i, r in enumerate(rects):
        if not inside(r, target):
            probs.append(f"piece {pieces[i]!r} lies outside the described area")
        for j in range(i):
            if overlap(r, rects[j]):
                probs.append(f"pieces {pieces[j]!r} and {pieces[i]!r} overlap")
    if sum(map(area, rects), F(0)) != area(target):
        probs.append(f"areas add up to {sum(map(area, rects), F(0))}, the described area is {area(target)}")
    return probs


def render(chain):
    return ''.join('ALL' if c == 'ALL' else (c + '½' if c in HALVES else c + '¼') for c in chain)


def _depth_settings(tier):
    out = []
    for dmin in (0, 1, 2, 3):
        for dmax in [None] + list(range(dmin, 5 if tier == 'thorough' else 4)):
            for bh in (False, True):
                out.append((dmin, dmax, None, bh))
    for d in (0, 1, 2, 3):
        out.append((2, None, d, False))
        out.append((1, 1, d, True))
    return out


def _bounded_tiles(tier, seed):
    import itertools
    import random
    from pytrs.parser.tract.aliquot_parse import parse_aliquot
    import pytrs
    rng = random.Random(seed)
    maxlen = 4 if tier == 'thorough' else 3
    chains = [['ALL']] + [list(c) for n in range(1, maxlen + 1) for c in itertools.product(COMPONENTS, repeat=n)]
    if tier == 'quick':
        extra = [list(c) for c in itertools.product(COMPONENTS, repeat=4)]
        rng.shuffle(extra)
        chains += extra[:600]
    settings = _depth_settings(tier)
    ev = 0
    distinct = set()
    violations = []
    samples = []
    for chain in chains:
        text = render(chain)
        for dmin, dmax, d, bh in settings:
            ev += 1
            pieces = parse_aliquot(text, qq_depth_min=dmin, qq_depth_max=dmax, qq_depth=d, break_halves=bh)
            emin, emax = (d, d) if d is not None else (dmin, dmax)
            probs = check_pieces(chain, pieces, emin, emax, bh)
            if len(chain) > 1:
                distinct.add((text, dmin, dmax, d, bh))
            if probs and len(violations) < 10:
                violations.append({'input': {'chain': chain, 'qq_depth_min': dmin, 'qq_depth_max': dmax, 'qq_depth': d,
                                             'break_halves': bh, 'via': 'parse_aliquot'},
                                   'observed': {'pieces': pieces, 'problem': probs[0]}, 'expected': 'tiling of the described area',
                                   'replay_spec': ['props.c02:replay_bounded', {}]})
        if len(samples) < 3 and len(chain) == 3:
            samples.append({'text': text, 'qqs(min=2)': parse_aliquot(text)})
    # end to end through Tract (text spelled with /2 and /4, config string)
    e2e = [c for c in chains if len(c) <= 2] + chains[-200:]
    for chain in e2e:
        text = ''.join(c if c == 'ALL' else (c + '/2' if c in HALVES else c + '/4') for c in chain)
        for dmin, dmax, bh in ((2, None, False), (1, 2, False), (3, 3, True), (0, 1, False)):
            cfg = f"qq_depth_min.{dmin}" + (f",qq_depth_max.{dmax}" if dmax is not None else '') + (',break_halves' if bh else '')
            ev += 1
            t = pytrs.Tract(text, parse_qq=True, config=cfg)
            probs = check_pieces(chain, t.qqs, dmin, dmax, bh)
            distinct.add(('tract', text, cfg))
            if probs and len(violations) < 10:
                violations.append({'input': {'chain': chain, 'text': text, 'config': cfg, 'via': 'Tract'},
                                   'observed': {'pieces': t.qqs, 'problem': probs[0]}, 'expected': 'tiling of the described area',
                                   'replay_spec': ['props.c02:replay_bounded', {}]})
    return {'evaluations': ev, 'distinct_nontrivial': len(distinct), 'violations': violations, 'samples': samples,
            'exhaustive': tier == 'thorough',
            'bound': f"all chains of <= {maxlen} components over the 8-letter alphabet (+ALL){' + 600 sampled chains of 4' if tier == 'quick' else ''} "
                     f"x {len(settings)} depth settings; Tract end-to-end on {len(e2e)} chains x 4 configs",
            'rule': "real parse_aliquot / Tract vs the exact rational geometric oracle (disjoint, inside, areas add up, min/max depth, "
                    "break_halves); non-trivial = chain of at least two components"}


def replay_bounded(inp):
    from pytrs.parser.tract.aliquot_parse import parse_aliquot
    import pytrs
    chain = inp['chain']
    if inp.get('via') == 'Tract':
        t = pytrs.Tract(inp['text'], parse_qq=True, config=inp['config'])
        import re
        m = re.search(r'qq_depth_min\.(\d+)', inp['config'])
        mx = re.search(r'qq_depth_max\.(\d+)', inp['config'])
        probs = check_pieces(chain, t.qqs, int(m.group(1)), int(mx.group(1)) if mx else None, 'break_halves' in inp['config'])
        return {'confirmed': bool(probs), 'detail': probs[0] if probs else 'tiles', 'observed': t.qqs, 'input': inp}
    pieces = parse_aliquot(render(chain), qq_depth_min=inp['qq_depth_min'], qq_depth_max=inp['qq_depth_max'],
                           qq_depth=inp['qq_depth'], break_halves=inp['break_halves'])
    d = inp['qq_depth']
    emin, emax = (d, d) if d is not None else (inp['qq_depth_min'], inp['qq_depth_max'])
    probs = check_pieces(chain, pieces, emin, emax, inp['break_halves'])
    return {'confirmed': bool(probs), 'detail': probs[0] if probs else 'tiles', 'observed': pieces, 'input': inp}


def bounded(tier, seed):
    return [{'name': 'C02-bounded-tiling-oracle', 'run': lambda: _bounded_tiles(tier, seed)}]


# ======================================================================================================================
# contracts on the list functions (symbolic components; chains of k = 1..4 components, all 8^k chains at once)
# ======================================================================================================================
def xbits(t):
    """halvings of the east-west axis a component denotes ('1' = east half, '0' = west half)"""
    return '1' if (t == 'E' or t == 'NE' or t == 'SE') else ('0' if (t == 'W' or t == 'NW' or t == 'SW') else '')


def ybits(t):
    return '1' if (t == 'N' or t == 'NE' or t == 'NW') else ('0' if (t == 'S' or t == 'SE' or t == 'SW') else '')


def xpath(comps):
    """the region of a component list (largest first) is the pair of dyadic paths (xpath, ypath)"""
    return ''.join([xbits(t) for t in comps])


def ypath(comps):
    return ''.join([ybits(t) for t in comps])


def all_components(comps):
    return all([t in COMPONENTS for t in comps])


def quarter_before_half(comps):
    """some quarter immediately larger than ... i.e. a half directly after (smaller than) nothing: standard order has no
    half that is directly preceded (in text order) by a quarter, i.e. in largest-first order no quarter directly follows... """
    return any([comps[k] in HALVES and comps[k + 1] in QUARTERS for k in range(len(comps) - 1)])


def cross_halves(comps):
    return any([comps[k] in HALVES and comps[k + 1] in HALVES
                and (comps[k] in ('N', 'S')) != (comps[k + 1] in ('N', 'S')) for k in range(len(comps) - 1)])


def _list_units():
    us = []
    for k in (1, 2, 3, 4):
        shape = FixedList(*[OneOf(*COMPONENTS) for _ in range(k)])
        us.append(Unit(
            name=f'C02/pass_back_halves[k={k}]', prop='C02', target=f'{MOD}:pass_back_halves',
            params={'aliquot_components': shape},
            ensures=[
                ('same_region', lambda old_aliquot_components, result:
                    xpath(result) == xpath(old_aliquot_components) and ypath(result) == ypath(old_aliquot_components)),
                ('alphabet_and_length', lambda old_aliquot_components, result:
                    all_components(result) and len(result) == len(old_aliquot_components)),
            ], replay='generic'))
        us.append(Unit(
            name=f'C02/combine_consecutive_halves[k={k}]', prop='C02', target=f'{MOD}:combine_consecutive_halves',
            params={'aliquot_components': shape},
            ensures=[
                ('same_region', lambda old_aliquot_components, result:
                    xpath(result) == xpath(old_aliquot_components) and ypath(result) == ypath(old_aliquot_components)),
                ('alphabet_and_length', lambda old_aliquot_components, result:
                    all_components(result) and len(result) <= len(old_aliquot_components)),
            ], replay='generic'))
        us.append(Unit(
            name=f'C02/standardize_aliquot_components[k={k}]', prop='C02', target=f'{MOD}:standardize_aliquot_components',
            params={'aliquot_components': shape},
            ensures=[
                ('same_region', lambda old_aliquot_components, result:
                    xpath(result) == xpath(old_aliquot_components) and ypath(result) == ypath(old_aliquot_components)),
                ('alphabet', lambda result: all_components(result)),
                # standard order (largest first): no half directly followed by a smaller quarter (text 'NE/4N/2'), and no
                # two consecutive halves on different axes
                ('standard_form', lambda result: not cross_halves(result)
                    and not any([result[j] in HALVES and result[j + 1] in QUARTERS for j in range(len(result) - 1)])),
            ], max_unroll=8, replay='generic', thorough_only=(k == 4)))
    return us


def units():
    return _list_units()
