"""C20 — optional parse modes are conservative where they are not needed.

Under contract (real source): rebuild_sec_within, PLSSParser.check_sec_within_tracts, PLSSChunker.segment /
_segment_twprge_first / _segment_twprge_last, SecFinder.findall_matching_sec (colon logic, second pass) over an abstract list of
section matches.  Chunk-level layout deduction and regex locality under `segment` are layer 3 (bounded tier).
"""
from pyvc.api import Unit, Int, Bool, Str, Opt, OneOf, Const, Choice, ObjT, Contract, FixedList, DictOf, Tup
from pyvc.spec import implies, iff, in_re
from props import plss_stubs

MOD = 'pytrs.parser.plssdesc.plss_parse'
ASSUMPTIONS = [
    "C20: multisec_regex.finditer / SecUnpacker / cleanup_desc are abstraction contracts in the proved part (ghost match lists with "
    "symbolic colon participation); segment-vs-whole equivalence of the regexes is bounded-only",
]


# ---- rebuild_sec_within ------------------------------------------------------------------------------------------------------------

def run_rebuild(component, unused):
    from pytrs.parser.plssdesc.plss_parse import rebuild_sec_within
    comps = [component]
    r = rebuild_sec_within(comps, unused, min_length=4)
    return (comps, unused, r)


def _cleanup_stub(ip, env):
    from pyvc import models
    from pytrs.parser.plssdesc import plss_parse
    models.register_model(plss_parse.cleanup_desc, lambda ip_, a, k, n: plss_stubs.g_str('G_cleanup', a[0]))


def cleaned(s):
    return plss_stubs.g_str('G_cleanup', s)


cleaned.__pyvc_native__ = True


def joined_in_order(desc, unused):
    """leading blocks (index 0) are prepended one after the other, trailing ones appended, each only if >= 4 characters"""
    out = desc
    for i, u in unused:
        c = cleaned(u)
        if len(c) >= 4:
            out = (c + ' ' + out) if i == 0 else (out + ' ' + c)
    return out


def _rebuild_units():
    comp = DictOf(desc=Str(), sec=Const(['14']), twprge=Const('154n97w'), sec_within=Const(False))
    us = []
    for n_un in (0, 1, 2, 3):
        un = FixedList(*[Tup(Choice(Const(0), Const(1)), Str()) for _ in range(n_un)])
        us.append(Unit(
            name=f'C20/rebuild_sec_within[{n_un} unused blocks]', prop='C20', target='props.c20:run_rebuild',
            params={'component': comp, 'unused': un}, setup_params=_cleanup_stub,
            ensures=[('text_joined_in_order_and_marked', lambda old_component, old_unused, result:
                      result[0][0]['desc'] == joined_in_order(old_component['desc'], old_unused)
                      and iff(result[0][0]['sec_within'], result[0][0]['desc'] != old_component['desc'])
                      and len(result[1]) == 0 and len(result[0]) == 1)]))
    us.append(Unit(
        name='C20/rebuild_sec_within[not exactly one tract: untouched]', prop='C20', target='props.c20:run_rebuild_two',
        params={'c1': comp, 'c2': comp, 'unused': FixedList(Tup(Const(0), Str()))}, setup_params=_cleanup_stub,
        ensures=[('nothing_changes', lambda old_c1, old_c2, old_unused, result:
                  result[0][0]['desc'] == old_c1['desc'] and result[0][1]['desc'] == old_c2['desc'] and len(result[1]) == 1
                  and result[1][0][1] == old_unused[0][1])]))
    return us


def run_rebuild_two(c1, c2, unused):
    from pytrs.parser.plssdesc.plss_parse import rebuild_sec_within
    comps = [c1, c2]
    rebuild_sec_within(comps, unused, min_length=4)
    return (comps, unused)


# ---- PLSSChunker --------------------------------------------------------------------------------------------------------------

def run_chunker(text, layout):
    from pytrs.parser.plssdesc.plss_parse import PLSSChunker
    c = PLSSChunker(text, layout=layout)
    return (c.blocks, c.unused_blocks)


def _chunk_setup(ip, env):
    plss_stubs.install(ip, twprge_matches=env['matches'], sec_matches=[])
    _cleanup_stub(ip, env)


MATCHSETS = {
    'none': [],
    'one at 0': [('TWPRGE', '154n97w', 0, 10)],
    'one inside': [('TWPRGE', '154n97w', 12, 22)],
    'two': [('TWPRGE', '154n97w', 5, 15), ('TWPRGE', '155n97w', 30, 40)],
    'three': [('TWPRGE', '154n97w', 0, 10), ('TWPRGE', '155n97w', 20, 30), ('TWPRGE', '156n97w', 45, 55)],
    # a Twp/Rge that is restated opens a chunk of its own like any other
    'two, the same Twp/Rge restated': [('TWPRGE', '154n97w', 5, 15), ('TWPRGE', '154n97w', 30, 40)],
    'three, A A B': [('TWPRGE', '154n97w', 0, 10), ('TWPRGE', '154n97w', 20, 30), ('TWPRGE', '155n97w', 45, 55)],
}


def covers_first(text, matches, blocks, unused):
    """Twp/Rge-first: chunk i runs from the start of match i to the start of match i+1 (or the end); text before the first match
    is kept as an unused leading block"""
    n = len(matches)
    return (len(blocks) == n
            and all([blocks[i] == cleaned(text[matches[i][2]:(matches[i + 1][2] if i + 1 < n else len(text))]) for i in range(n)])
            and (len(unused) == (1 if matches[0][2] != 0 else 0))
            and implies(matches[0][2] != 0, unused[0][0] == 0 and unused[0][1] == text[:matches[0][2]]))


def covers_last(text, matches, blocks, unused):
    n = len(matches)
    return (len(blocks) == n
            and all([blocks[i] == cleaned(text[(matches[i - 1][3] if i > 0 else 0):matches[i][3]]) for i in range(n)])
            and implies(len(unused) == 1, unused[0][0] == 1 and unused[0][1] == text[matches[n - 1][3]:])
            and len(unused) <= 1)


def _chunker_units():
    us = []
    for nm, ms in MATCHSETS.items():
        for layout in ('TRS_desc', 'TR_desc_S', 'desc_STR', 'S_desc_TR', 'copy_all'):
            first = layout in ('TRS_desc', 'TR_desc_S')
            if not ms or layout == 'copy_all':
                post = lambda text, result: len(result[0]) == 1 and result[0][0] == text and len(result[1]) == 0
            elif first:
                post = lambda text, matches, result: covers_first(text, matches, result[0], result[1])
            else:
                post = lambda text, matches, result: covers_last(text, matches, result[0], result[1])
            us.append(Unit(name=f'C20/PLSSChunker[{layout}, matches: {nm}]', prop='C20', target='props.c20:run_chunker',
                           params={'text': Str(), 'layout': Const(layout)}, ghost={'matches': Const(ms)},
                           requires=lambda text: len(text) >= 60, setup_params=_chunk_setup,
                           ensures=[('blocks_cover_the_text_without_gap_or_overlap', post)]))
    return us


# ---- SecFinder: colon modes over an abstract list of section matches -----------------------------------------------------------------

class SecMatch:
    _pyvc_sym = True

    def __init__(self, text, start, end, has_colon, secs):
        self.text, self.s, self.e, self.has_colon, self.secs = text, start, end, has_colon, secs

    def group(self, n=0):
        return self.text

    def __getitem__(self, name):
        if name == 'colon':
            return ':' if self.has_colon else None
        if name == 'secnum_rightmost':
            return self.secs[-1] if len(self.secs) > 1 else None
        if name == 'secnum':
            return self.secs[0]
        return None

    def groupdict(self):
        return {'intervener': None, 'secnum': self.secs[0], 'secnum_rightmost': None, 'colon': None}

    def start(self, n=0):
        return self.s

    def end(self, n=0):
        return self.e


class SecPattern:
    _pyvc_sym = True

    def __init__(self, matches):
        self.matches = matches

    def finditer(self, text, pos=0, endpos=None):
        return [m for m in self.matches]


class FakeUnpacker:
    _pyvc_sym = True

    def __init__(self, sec_list):
        self.sec_list = sec_list
        self.flags = []
        self.flag_lines = []


def _finder_setup(ip, env):
    from pytrs.parser.plssdesc import plss_parse
    from pyvc import models
    ms = [SecMatch('Sec 14', 11, 17, env['c1'], ['14']), SecMatch('Secs 15, 16', 30, 41, env['c2'], ['15', '16'])][:env['n']]
    ip.overlay[(id(plss_parse.__dict__), 'multisec_regex')] = SecPattern(ms)
    table = {'Sec 14': ['14'], 'Secs 15, 16': ['15', '16']}
    models.register_model(plss_parse.SecUnpacker, lambda ip_, a, k, n: FakeUnpacker(list(table[a[0]])))
    models.register_model(plss_parse.is_multi_sec, lambda ip_, a, k, n: len(a[0].secs) > 1)
    ip.ctx.assumed.append('abstraction:multisec_regex.finditer returns the ghost section matches (colon participation symbolic)')


def run_finders(text, layout, mode):
    from pytrs.parser.plssdesc.plss_parse import SecFinder
    d = SecFinder(text, layout, False)
    m = SecFinder(text, layout, mode)
    return ((d.matches, d.flags, d.flag_lines), (m.matches, m.flags, m.flag_lines))


def no_illegal_word_before(text):
    return (not text[:11].rstrip().endswith((' of', ' said', ' in', ' within'))
            and not text[:30].rstrip().endswith((' of', ' said', ' in', ' within')))


def _finder_units():
    us = []
    for n in (1, 2):
        for mode in (True, 'sec_colon_cautious'):
            for layout in ('TRS_desc', 'S_desc_TR', 'desc_STR'):
                def post(c1, c2, result, n=n, mode=mode, layout=layout):
                    dflt, got = result
                    cols = [c1, c2][:n]
                    colon_layout = layout in ('TRS_desc', 'S_desc_TR')
                    return (
                        # flags stay well-typed and paired
                        len(got[1]) == len(got[2]) and all([isinstance(f, str) for f in got[1]])
                        and all([got[2][i][0] == got[1][i] and isinstance(got[2][i][1], str) for i in range(len(got[1]))])
                        # the colon modes only matter in the section-first layouts
                        and implies(not colon_layout, got[0] == dflt[0])
                        # every section has a colon: nothing changes
                        and implies(colon_layout and all(cols), got[0] == dflt[0] and got[1] == dflt[1])
                        # no section has a colon
                        and implies(colon_layout and not any(cols) and mode is True, len(got[0]) == 0)
                        and implies(colon_layout and not any(cols) and mode != True,
                                    got[0] == dflt[0] and sum([1 for f in got[1] if f.startswith('pulled_sec_without_colon')]) == 1)
                        # required: exactly the matches that have a colon
                        and implies(colon_layout and mode is True, len(got[0]) == sum([1 for c in cols if c])))
                us.append(Unit(
                    name=f'C20/SecFinder[{n} matches, {layout}, require_colon={mode}]', prop='C20', target='props.c20:run_finders',
                    params={'text': Str(), 'layout': Const(layout), 'mode': Const(mode)},
                    ghost={'c1': Bool(), 'c2': Bool(), 'n': Const(n)},
                    requires=lambda text: len(text) >= 60 and no_illegal_word_before(text), setup_params=_finder_setup,
                    ensures=[('colon_modes_are_conservative', post)]))
    return us


def units():
    from pyvc.api import borrow
    from props import c15
    # comparing two parse modes on the same text presupposes that a parse does not depend on an earlier one: the package-wide frame
    # 'no store to process-wide state outside the documented ones' (C15's scan) is a callee contract of this property
    return _rebuild_units() + _chunker_units() + _finder_units() + borrow([c15._scan_unit()], 'C20')


# ======================================================================================================================
# bounded stand-in
# ======================================================================================================================
def _bounded_modes(tier, seed):
    import random
    import re
    import warnings
    import pytrs
    from props import gen
    warnings.simplefilter('ignore')
    rng = random.Random(seed)
    ev = 0
    distinct = set()
    violations = []
    samples = []

    def bad(inp, obs, exp):
        if len(violations) < 10:
            violations.append({'input': inp, 'observed': obs, 'expected': exp, 'replay_spec': None})

    def sig(d):
        return [(t.trs, t.desc) for t in d.tracts]
    n = 120 if tier == 'quick' else 1200
    for desc in gen.abstract_descriptions(rng, n):
        layout = rng.choice(gen.LAYOUTS)
        style = rng.choice([0, 1, 2, 4, 5])
        text = gen.render(desc, layout, twp_style=style, sec_word=rng.choice(gen.SEC_WORDS[:5]), sep=rng.choice([', ', '; ', '\n']))
        distinct.add(text)
        base = pytrs.PLSSDesc(text)
        want = gen.expected_tracts(desc)
        # (1) segment on a single-layout description
        seg = pytrs.PLSSDesc(text, config='segment')
        ev += 1
        if sig(seg) != sig(base) or sig(base) != want:
            bad({'text': text, 'config': 'segment'}, sig(seg)[:4], sig(base)[:4])
        # (2) colon modes when every section is followed by a colon (TRS_desc / S_desc_TR renderings have colons)
        if layout in ('TRS_desc', 'S_desc_TR'):
            for cfg in ('sec_colon_required', 'sec_colon_cautious'):
                d = pytrs.PLSSDesc(text, config=cfg)
                ev += 1
                if sig(d) != sig(base) or d.w_flags != base.w_flags:
                    bad({'text': text, 'config': cfg, 'case': 'all colons present'}, [sig(d)[:3], d.w_flags], [sig(base)[:3], base.w_flags])
            # (3) no section has a colon
            nocolon = gen.render(desc, layout, twp_style=style, sec_word='Sec', colon=False, sep='; ').replace(' -', '')
            b2 = pytrs.PLSSDesc(nocolon)
            if sig(b2) == want:
                c = pytrs.PLSSDesc(nocolon, config='sec_colon_cautious')
                ev += 1
                pulled = [f for f in c.w_flags if f.startswith('pulled_sec_without_colon')]
                if sig(c) != sig(b2) or len(pulled) < 1:
                    bad({'text': nocolon, 'config': 'sec_colon_cautious'}, [sig(c)[:3], c.w_flags], [sig(b2)[:3], 'plus pulled_sec_without_colon'])
                r = pytrs.PLSSDesc(nocolon, config='sec_colon_required')
                ev += 1
                if len(r.tracts) != 1 or r.tracts[0].desc != r.pp_desc:
                    bad({'text': nocolon, 'config': 'sec_colon_required'}, sig(r)[:3], 'one fallback tract with the whole text')
        if len(samples) < 2:
            samples.append({'text': text[:70], 'tracts': want[:2]})
    # (4) sec_within
    leads = ['That part of the NE/4', 'A tract of land', 'Beginning at the NE corner']
    trails = ['lying north of the river', 'more particularly described as follows', 'containing 40 acres more or less']
    for lead in leads:
        for trail in trails:
            for secs, exp_secs in (('Section 14', ['14']), ('Sections 14 and 15', ['14', '15']), ('Secs 3 - 5', ['03', '04', '05'])):
                for place in ('before', 'after', 'inside'):
                    tr = 'T154N-R97W'
                    if place == 'before':
                        text = f"{tr} {lead} of {secs} {trail}"
                    elif place == 'after':
                        text = f"{lead} of {secs} {trail}, {tr}"
                    else:
                        text = f"{lead} of {secs}, {tr}, {trail}"
                    d = pytrs.PLSSDesc(text, config='sec_within')
                    ev += 1
                    distinct.add(text)
                    ok = [t.trs for t in d.tracts] == ['154n97w' + s for s in exp_secs]
                    descs = {t.desc for t in d.tracts}
                    words_ok = all(w in next(iter(descs)) for w in (lead.split()[-1], trail.split()[0])) if len(descs) == 1 else False
                    order_ok = len(descs) == 1 and next(iter(descs)).index(lead.split()[1]) < next(iter(descs)).index(trail.split()[0])
                    warn = sum(1 for f in d.w_flags if f.startswith('sec_within')) == len(exp_secs)
                    if not (ok and words_ok and order_ok and warn):
                        bad({'text': text, 'config': 'sec_within'}, [[(t.trs, t.desc) for t in d.tracts], d.w_flags],
                            'tract(s) described by leading + trailing text in order, sec_within warning each')
    return {'evaluations': ev, 'distinct_nontrivial': len(distinct), 'violations': violations, 'samples': samples, 'exhaustive': False,
            'bound': f"{n} generated single-layout descriptions x segment / colon modes (with and without colons); "
                     f"{len(leads) * len(trails) * 3 * 3} sec_within texts",
            'rule': "tracts under the optional mode equal the default's (or the documented fallback / warning); non-trivial = distinct text"}


def bounded(tier, seed):
    return [{'name': 'C20-bounded-modes', 'run': lambda: _bounded_modes(tier, seed)}]
