"""C13 — configuration round-trips through text and has a single precedence order.

Functions under contract: Config.__init__, _text_to_attributes, _set_str_to_values, decompile_to_text, attrib_and_val_to_str,
str_to_value, verify_default_ns/ew, Tract.config (setter), Tract.parse (parameter lock-down), PLSSDesc.config (setter),
PLSSDesc.parse (parameter lock-down and hand-down to PLSSParser / subordinate tracts).
"""
from pyvc.api import Unit, Int, Bool, Str, Opt, OneOf, Const, Choice, ObjT, Contract, Cat
from pyvc.spec import implies, iff, in_re

CFG = 'pytrs.parser.config.config'
BOOLS = ('wait_to_parse', 'parse_qq', 'clean_qq', 'suppress_lot_divs', 'sec_colon_required', 'sec_colon_cautious', 'ocr_scrub',
         'segment', 'break_halves', 'sec_within')
INTS = ('qq_depth_min', 'qq_depth_max', 'qq_depth')
ALL = ('default_ns', 'default_ew', 'layout', 'wait_to_parse', 'parse_qq', 'clean_qq', 'sec_colon_required', 'sec_colon_cautious',
       'suppress_lot_divs', 'ocr_scrub', 'segment', 'qq_depth', 'qq_depth_min', 'qq_depth_max', 'break_halves', 'sec_within')
LAYOUTS = ('TRS_desc', 'desc_STR', 'S_desc_TR', 'TR_desc_S', 'copy_all')

ASSUMPTIONS = [
    "C13: integer settings are symbolic (all integers); booleans, directions and layouts are enumerated completely (finite); "
    "combinations of settings are verified pairwise (words of the config text are processed independently: frame obligation)",
]


# ---- round trip -----------------------------------------------------------------------------------------------------------

def roundtrip1(att, value):
    from pytrs import Config
    c = Config()
    setattr(c, att, value)
    return Config(c.decompile_to_text())


def roundtrip2(att1, value1, att2, value2):
    from pytrs import Config
    c = Config()
    setattr(c, att1, value1)
    setattr(c, att2, value2)
    return Config(c.decompile_to_text())


def attrs_are(cfg, wanted):
    """all 16 attributes of cfg: the wanted ones have their value, every other one is None"""
    return all([getattr(cfg, a) == wanted[a] if a in wanted else getattr(cfg, a) is None for a in ALL])


def _value_shape(att):
    if att in INTS:
        return Int()
    if att in BOOLS:
        return Choice(Const(True), Const(False))
    if att == 'default_ns':
        return Choice(Const('n'), Const('s'))
    if att == 'default_ew':
        return Choice(Const('e'), Const('w'))
    return Choice(*[Const(l) for l in LAYOUTS])


def _rt1(att):
    return Unit(name=f'C13/roundtrip[{att}]', prop='C13', target='props.c13:roundtrip1',
                params={'att': Const(att), 'value': _value_shape(att)},
                ensures=[('same_configuration', lambda att, value, result: attrs_are(result, {att: value}))],
                replay='generic')


def _rt2(a1, a2):
    return Unit(name=f'C13/roundtrip[{a1}+{a2}]', prop='C13', target='props.c13:roundtrip2',
                params={'att1': Const(a1), 'value1': _value_shape(a1), 'att2': Const(a2), 'value2': _value_shape(a2)},
                ensures=[('same_configuration', lambda att1, value1, att2, value2, result:
                          attrs_are(result, {att1: value1, att2: value2}))],
                replay='generic')


def _roundtrip_units():
    us = [_rt1(a) for a in ALL]
    pairs = [(ALL[i], ALL[j]) for i in range(len(ALL)) for j in range(i + 1, len(ALL))]
    us += [_rt2(a, b) for a, b in pairs]
    return us


# ---- unknown settings -------------------------------------------------------------------------------------------------------

def make_config(text):
    from pytrs import Config
    return Config(text)


def name_of(word):
    import re
    return re.split(r'\.', word)[0]


def value_of(word):
    import re
    return re.split(r'\.', word)[1]


def ill_typed(text):
    """a value that is not of the setting's type (Config.from_dict's rule, applied to config strings since f7816a7)"""
    return ((name_of(text) in BOOLS and value_of(text) not in ('True', 'False', 'None'))
            or (name_of(text) in INTS and value_of(text) != 'None' and not in_re(value_of(text), r'[0-9]+')))


def _unknown_units():
    name = Str(r'[A-Za-z_][A-Za-z_0-9]*', ascii_only=True)
    return [
        Unit(name='C13/unknown_setting[bare word]', prop='C13', target='props.c13:make_config',
             params={'text': name},
             ensures=[('only_known_names', lambda text: text in ALL or text in ('n', 's', 'N', 'S', 'e', 'w', 'E', 'W') or text in LAYOUTS)],
             raises={ValueError: lambda text: not (text in ALL or text in ('n', 's', 'N', 'S', 'e', 'w', 'E', 'W') or text in LAYOUTS)}),
        Unit(name='C13/unknown_setting[name.value]', prop='C13', target='props.c13:make_config',
             params={'text': Cat(name, Const('.'), Str(r'[A-Za-z0-9]+', ascii_only=True))},
             ghost={},
             ensures=[('only_known_names_and_well_typed_values', lambda text: name_of(text) in ALL and not ill_typed(text))],
             raises={ValueError: lambda text: not (name_of(text) in ALL and name_of(text) not in ('default_ns', 'default_ew')) or ill_typed(text),
                     __import__('pytrs').parser.config.DefaultNSError: True, __import__('pytrs').parser.config.DefaultEWError: True}),
    ]


def units():
    return _roundtrip_units() + _unknown_units()


# ======================================================================================================================
# precedence: keyword > config > default
# ======================================================================================================================
def set_config(obj, cfg):
    obj.config = cfg
    return obj


def _tract():
    import pytrs
    return pytrs.Tract('NE/4', trs='154n97w14')


def _config_obj(**fields):
    import pytrs
    from props.shapes import Native
    return Native(lambda: pytrs.Config(), **fields)


TRACT_ATTS = ('default_ns', 'default_ew', 'parse_qq', 'clean_qq', 'suppress_lot_divs', 'ocr_scrub', 'qq_depth', 'qq_depth_min',
              'qq_depth_max', 'break_halves')


def _shape_for(att):
    if att in INTS:
        return Opt(Int())
    if att in BOOLS:
        return Opt(Bool())
    if att == 'default_ns':
        return Opt(OneOf('n', 's'))
    if att == 'default_ew':
        return Opt(OneOf('e', 'w'))
    return Opt(OneOf(*LAYOUTS))


def _setter_unit(kind, att):
    from props.shapes import Native
    import pytrs
    factory = _tract if kind == 'Tract' else (lambda: pytrs.PLSSDesc('T154N-R97W Sec 14: NE/4', wait_to_parse=True))
    atts = TRACT_ATTS if kind == 'Tract' else ALL
    return Unit(
        name=f'C13/{kind}.config.setter[{att}]', prop='C13', target='props.c13:set_config',
        params={'obj': Native(factory), 'cfg': _config_obj(**{att: _shape_for(att)})},
        ensures=[('applies_exactly_the_set_values', lambda obj, old_obj, cfg:
                  all([getattr(obj, a) == (getattr(cfg, a) if getattr(cfg, a) is not None else getattr(old_obj, a)) for a in atts])
                  and obj.config is cfg)])


# ---- Tract.parse: arguments that reach TractParser ----------------------------------------------------------------------------

def _tp_init(ip, obj, bound):
    for k, v in bound.items():
        if k != 'self':
            obj.fields['arg_' + k] = v
    obj.fields.update({'lots': [], 'qqs': [], 'lot_acres': {}, 'aliquots_whole': [], 'w_flags': [], 'w_flag_lines': [],
                       'e_flags': [], 'e_flag_lines': [], 'text': bound.get('text')})


TRACTPARSER_INIT = Contract('TractParser.__init__', name='TractParser.__init__ (stub: records its arguments)')
TRACTPARSER_INIT.init_fields = _tp_init


def pick(kw, attr):
    return kw if kw is not None else attr


def spec_depths(kw_min, kw_max, kw_d, s_min, s_max, s_d):
    """(min, max) that must be used: explicit qq_depth, else explicit min/max, else configured qq_depth, else configured min/max"""
    if kw_d is not None:
        return (kw_d, kw_d)
    if kw_min is None and kw_max is None and s_d is not None:
        return (s_d, s_d)
    return (pick(kw_min, s_min), pick(kw_max, s_max))


def _tract_parse_unit():
    from props.shapes import Native
    return Unit(
        name='C13/Tract.parse[lock-down]', prop='C13', target='pytrs.parser.tract.tract:Tract.parse',
        params={'self': Native(_tract, clean_qq=Bool(), suppress_lot_divs=Bool(), break_halves=Bool(), qq_depth=Opt(Int()),
                               qq_depth_min=Int(), qq_depth_max=Opt(Int())),
                'commit': Const(False), 'clean_qq': Opt(Bool()), 'suppress_lot_divs': Opt(Bool()), 'qq_depth_min': Opt(Int()),
                'qq_depth_max': Opt(Int()), 'qq_depth': Opt(Int()), 'break_halves': Opt(Bool())},
        uses=[TRACTPARSER_INIT],
        ensures=[
            ('keyword_over_config', lambda self, clean_qq, suppress_lot_divs, break_halves, locals_:
                locals_['parser'].arg_clean_qq == pick(clean_qq, self.clean_qq)
                and locals_['parser'].arg_suppress_lot_divs == pick(suppress_lot_divs, self.suppress_lot_divs)
                and locals_['parser'].arg_break_halves == pick(break_halves, self.break_halves)
                and locals_['parser'].arg_parent is self and locals_['parser'].arg_text == self.desc),
            ('depth_resolution', lambda self, qq_depth_min, qq_depth_max, qq_depth, locals_:
                effective_depths(locals_['parser']) == spec_depths(qq_depth_min, qq_depth_max, qq_depth, self.qq_depth_min,
                                                                   self.qq_depth_max, self.qq_depth)),
        ])


def effective_depths(parser):
    """what parse_aliquot will use given the arguments TractParser received (qq_depth overrides min and max)"""
    if parser.arg_qq_depth is not None:
        return (parser.arg_qq_depth, parser.arg_qq_depth)
    return (parser.arg_qq_depth_min, parser.arg_qq_depth_max)


# ---- PLSSDesc.parse: arguments that reach PLSSParser and the config handed down to the tracts ---------------------------------

def _pp_init(ip, obj, bound):
    from pytrs.parser.containers.containers import TractList
    from pyvc.values import Obj
    for k, v in bound.items():
        if k != 'self':
            obj.fields['arg_' + k] = v
    obj.fields.update({'tracts': Obj(TractList, {'_elements': []}), 'w_flags': [], 'w_flag_lines': [], 'e_flags': [],
                       'e_flag_lines': [], 'current_layout': bound.get('layout'), 'text': bound.get('text')})


PLSSPARSER_INIT = Contract('PLSSParser.__init__', name='PLSSParser.__init__ (stub: records its arguments)')
PLSSPARSER_INIT.init_fields = _pp_init


def _plssdesc():
    import pytrs
    return pytrs.PLSSDesc('T154N-R97W Sec 14: NE/4', wait_to_parse=True)


def spec_require_colon(kw_required, kw_cautious, s_required, s_cautious):
    from pytrs.parser.plssdesc.plss_parse import SecFinder
    if kw_required is not None:
        return kw_required
    if kw_cautious:
        return SecFinder.SEC_COLON_CAUTIOUS
    if s_cautious and not s_required:
        return SecFinder.SEC_COLON_CAUTIOUS
    return s_required


def _plss_parse_unit_a():
    from props.shapes import Native
    return Unit(
        name='C13/PLSSDesc.parse[lock-down: description-level settings]', prop='C13',
        target='pytrs.parser.plssdesc.plssdesc:PLSSDesc.parse',
        params={'self': Native(_plssdesc, layout=Opt(OneOf(*LAYOUTS)), default_ns=Opt(OneOf('n', 's')), default_ew=Opt(OneOf('e', 'w')),
                               ocr_scrub=Bool(), sec_within=Bool(), parse_qq=Bool(), segment=Bool(), sec_colon_required=Bool(),
                               sec_colon_cautious=Opt(Bool())),
                'layout': Opt(OneOf(*LAYOUTS)), 'default_ns': Opt(OneOf('n', 's')), 'default_ew': Opt(OneOf('e', 'w')),
                'ocr_scrub': Opt(Bool()), 'sec_within': Opt(Bool()), 'parse_qq': Opt(Bool()), 'segment': Opt(Bool()),
                'sec_colon_required': Opt(Bool()), 'sec_colon_cautious': Opt(Bool()), 'commit': Const(False)},
        uses=[PLSSPARSER_INIT],
        ensures=[
            ('keyword_over_config', lambda self, layout, default_ns, default_ew, ocr_scrub, sec_within, parse_qq, locals_:
                locals_['parser'].arg_layout == pick(layout, self.layout)
                and locals_['parser'].arg_default_ns == pick(default_ns, self.default_ns)
                and locals_['parser'].arg_default_ew == pick(default_ew, self.default_ew)
                and locals_['parser'].arg_ocr_scrub == pick(ocr_scrub, self.ocr_scrub)
                and locals_['parser'].arg_sec_within == pick(sec_within, self.sec_within)
                and locals_['parser'].arg_parse_qq == pick(parse_qq, self.parse_qq)
                and locals_['parser'].arg_text == self.orig_desc and locals_['parser'].arg_source == self.source),
            ('colon_mode', lambda self, sec_colon_required, sec_colon_cautious, locals_:
                locals_['parser'].arg_require_colon == spec_require_colon(sec_colon_required, sec_colon_cautious,
                                                                          self.sec_colon_required, self.sec_colon_cautious)),
            ('segment_off_for_copy_all', lambda self, layout, segment, locals_:
                locals_['parser'].arg_segment == (False if pick(layout, self.layout) == 'copy_all' else pick(segment, self.segment))),
        ])


def _plss_parse_units_b():
    """one unit per group of tract-level settings (the settings are handled by independent statements)"""
    from props.shapes import Native
    groups = {
        'clean_qq': (dict(clean_qq=Opt(Bool())), dict(clean_qq=Opt(Bool()))),
        'break_halves': (dict(break_halves=Opt(Bool())), dict(break_halves=Opt(Bool()))),
        'depths': (dict(qq_depth=Opt(Int()), qq_depth_min=Opt(Int()), qq_depth_max=Opt(Int())),
                   dict(qq_depth=Opt(Int()), qq_depth_min=Opt(Int()), qq_depth_max=Opt(Int()))),
    }
    us = []
    for nm, (cfg_fields, kws) in groups.items():
        params = {'self': Native(_plssdesc, _PLSSDesc__config=_config_obj(**cfg_fields)), 'commit': Const(False)}
        for k in ('clean_qq', 'break_halves', 'qq_depth', 'qq_depth_min', 'qq_depth_max'):
            params[k] = kws.get(k, Const(None))
        us.append(Unit(
            name=f'C13/PLSSDesc.parse[hand-down: {nm}]', prop='C13', target='pytrs.parser.plssdesc.plssdesc:PLSSDesc.parse',
            params=params, uses=[PLSSPARSER_INIT],
            ensures=[('tracts_get_keyword_over_config',
                      lambda self, clean_qq, break_halves, qq_depth, qq_depth_min, qq_depth_max, locals_:
                      handed_down_ok(make_config(locals_['parser'].arg_handed_down_config), self.config, clean_qq, break_halves,
                                     qq_depth, qq_depth_min, qq_depth_max))]))
    return us


def handed_down_ok(hd, cfg, clean_qq, break_halves, qq_depth, qq_depth_min, qq_depth_max):
    return (
        hd.clean_qq == pick(clean_qq, cfg.clean_qq)
        and hd.break_halves == pick(break_halves, cfg.break_halves)
        and hd.qq_depth_min == pick(qq_depth_min, cfg.qq_depth_min)
        and hd.qq_depth_max == pick(qq_depth_max, cfg.qq_depth_max)
        and hd.qq_depth == (qq_depth if qq_depth is not None
                            else (None if (qq_depth_min is not None or qq_depth_max is not None) else cfg.qq_depth))
    )


def units():
    us = _roundtrip_units() + _unknown_units()
    us += [_setter_unit('Tract', a) for a in TRACT_ATTS] + [_setter_unit('PLSSDesc', a) for a in ALL]
    us.append(_tract_parse_unit())
    us += [_plss_parse_unit_a()] + _plss_parse_units_b()
    return us


def _old_units():
    pass


# ======================================================================================================================
# bounded stand-in: the three channels end to end
# ======================================================================================================================
def _sig_desc(tracts):
    return [(t.trs, t.desc, tuple(t.lots), tuple(t.qqs)) for t in tracts]


def _bounded_channels(tier, seed):
    import pytrs
    ev = 0
    distinct = set()
    violations = []
    samples = []

    def bad(inp, obs, exp):
        if len(violations) < 10:
            violations.append({'input': inp, 'observed': obs, 'expected': exp, 'replay_spec': None})
    texts = ['T154N-R97W Sec 14: NE, N/2SW/4, Lots 1 - 3, N/2 of Lot 4',
             'T154-R97 Sec 14 NE/4NE/4, Sec 15: W/2',
             'Township 154 North, Range 97 West\nSection 14: that part of the NE/4 lying north of the river; Sec 15: E/2E/2',
             'NE/4 of Sec 14, T154N-R97W, S/2 of Sec 15, T154N-R97W']
    settings = [('clean_qq', True), ('clean_qq', False), ('qq_depth', 1), ('qq_depth', 3), ('qq_depth_min', 1), ('qq_depth_min', 3),
                ('qq_depth_max', 1), ('qq_depth_max', 3), ('break_halves', True), ('break_halves', False),
                ('default_ns', 's'), ('default_ew', 'e'), ('ocr_scrub', True), ('segment', True), ('sec_colon_required', True),
                ('sec_colon_cautious', True), ('layout', 'copy_all'), ('layout', 'desc_STR'), ('sec_within', True),
                ('suppress_lot_divs', True)]
    conflicts = {'clean_qq': False, 'qq_depth': 2, 'qq_depth_min': 2, 'qq_depth_max': 2, 'break_halves': False, 'default_ns': 'n',
                 'default_ew': 'w', 'ocr_scrub': False, 'segment': False, 'sec_colon_required': False, 'sec_colon_cautious': False,
                 'layout': 'TRS_desc', 'sec_within': False, 'suppress_lot_divs': False}

    def word(att, val):
        from pytrs.parser.config.config import attrib_and_val_to_str
        return attrib_and_val_to_str(att, val)
    parse_kw = {'layout', 'default_ns', 'default_ew', 'clean_qq', 'sec_colon_cautious', 'sec_colon_required', 'segment', 'ocr_scrub',
                'sec_within', 'qq_depth_min', 'qq_depth_max', 'qq_depth', 'break_halves'}
    for text in texts:
        for att, val in settings:
            w = word(att, val)
            try:
                a = pytrs.PLSSDesc(text, config=f'parse_qq,{w}')
                b = pytrs.PLSSDesc(text, config='parse_qq', wait_to_parse=True)
                b.config = f'parse_qq,{w}'
                b.parse()
                sigs = {'config at creation': _sig_desc(a.tracts), 'assigned to .config': _sig_desc(b.tracts)}
                if att in parse_kw:
                    c = pytrs.PLSSDesc(text, config='parse_qq', wait_to_parse=True)
                    c.parse(**{att: val})
                    sigs['keyword to parse()'] = _sig_desc(c.tracts)
                    d = pytrs.PLSSDesc(text, config=f'parse_qq,{word(att, conflicts[att])}', wait_to_parse=True)
                    d.parse(**{att: val})
                    sigs['keyword over conflicting config'] = _sig_desc(d.tracts)
            except Exception as e:      # totality is C03's business; record but do not count as C13
                continue
            ev += len(sigs)
            distinct.add((text, att, val))
            ref = sigs['config at creation']
            for chan, sg in sigs.items():
                if sg != ref:
                    bad({'text': text, 'setting': att, 'value': val, 'channel': chan}, sg[:3], ref[:3])
            if len(samples) < 3 and att == 'qq_depth':
                samples.append({'text': text[:40], 'setting': f'{att}={val}', 'tracts': ref[:2]})
    # Tract: config / .config / keyword
    for ttext in ('NE, N/2SW/4, Lots 1 - 3, N/2 of Lot 4', 'N/2 of Lot 4, E/2NE/4'):
        for att, val in settings:
            if att not in ('clean_qq', 'qq_depth', 'qq_depth_min', 'qq_depth_max', 'break_halves', 'suppress_lot_divs'):
                continue
            w = word(att, val)
            a = pytrs.Tract(ttext, trs='154n97w14', config=f'parse_qq,{w}')
            b = pytrs.Tract(ttext, trs='154n97w14')
            b.config = w
            b.parse()
            c = pytrs.Tract(ttext, trs='154n97w14')
            c.parse(**{att: val})
            d = pytrs.Tract(ttext, trs='154n97w14', config=word(att, conflicts[att]))
            d.parse(**{att: val})
            ev += 4
            distinct.add(('tract', ttext, att, val))
            ref = (a.lots, a.qqs)
            for chan, t in (('assigned to .config', b), ('keyword to parse()', c), ('keyword over conflicting config', d)):
                if (t.lots, t.qqs) != ref:
                    bad({'tract': ttext, 'setting': att, 'value': val, 'channel': chan}, [t.lots, t.qqs], list(ref))
    # text round trip over a grid of full configurations
    import itertools
    import random
    rng = random.Random(seed)
    for n in range(300 if tier == 'quick' else 3000):
        cfg = pytrs.Config()
        for att in ALL:
            r = rng.random()
            if r < 0.5:
                continue
            if att in BOOLS:
                setattr(cfg, att, rng.random() < 0.5)
            elif att in INTS:
                setattr(cfg, att, rng.choice([-3, 0, 1, 2, 7, 12, 100]))
            elif att == 'default_ns':
                cfg.default_ns = rng.choice('ns')
            elif att == 'default_ew':
                cfg.default_ew = rng.choice('ew')
            else:
                cfg.layout = rng.choice(LAYOUTS)
        back = pytrs.Config(cfg.decompile_to_text())
        ev += 1
        distinct.add(('cfg', cfg.decompile_to_text()))
        if any(getattr(back, a) != getattr(cfg, a) for a in ALL):
            bad({'config_text': cfg.decompile_to_text()}, {a: getattr(back, a) for a in ALL}, {a: getattr(cfg, a) for a in ALL})
    return {'evaluations': ev, 'distinct_nontrivial': len(distinct), 'violations': violations, 'samples': samples, 'exhaustive': False,
            'bound': f"{len(texts)} descriptions x {len(settings)} setting values x up to 4 channels; 2 tract texts; random full configurations",
            'rule': "same setting through config-at-creation / .config assignment / parse keyword must give the same tracts, and a "
                    "keyword must beat a conflicting config; non-trivial = distinct (text, setting, value)"}


def bounded(tier, seed):
    return [{'name': 'C13-bounded-channels', 'run': lambda: _bounded_channels(tier, seed)}]
