"""C03 — parsing is total: any text, any valid configuration, never an exception; invalid arguments only with the documented types.

Every pyvc unit treats a raise that its `raises` map does not allow as a failed obligation, so exception freedom is a
postcondition of every function that is executed symbolically.  The units of this module put the functions on the way from
PLSSDesc(...) / Tract(...) to the tracts under exactly that contract:

  * PLSSParser.__init__ / parse / construct_tracts / check_error_tracts, PLSSChunker.segment, ChunkParser.parse_safe /
    parse_chunk / _parse_copyall / get_next_* / _stage_new_tract / examine_unused, Tract.__init__, TRS.__init__ for every
    text, every arrangement of Twp/Rge and section matches (also none at all), every *forced* layout and every deduced one,
    segment on and off, sec_within, clean_up, require_colon: returns normally with at least one tract;
  * TractParser.parse / gen_flags over the block abstraction of C06 (any text, any depth settings);
  * unpack_twprge (the only place where a documented exception may leave the parse: DefaultNSError / DefaultEWError for an
    illegal default direction, nothing else), twprge_natural_to_short;
  * argument validation: PLSSDesc / Tract given a non-str text raise TypeError, a config of a wrong type ConfigError, an
    unknown setting or an ill-typed value ValueError, an illegal default direction DefaultNSError / DefaultEWError.

The regex layer below those functions is an abstraction contract (re never raises on a str); that the real regexes and the
real preprocessors never raise on odd input is the bounded tier (token soup x configurations x entry points).
"""
from pyvc.api import Unit, Int, Bool, Str, Opt, OneOf, Const, Choice, ObjT, Contract, FixedList, Cat
from pyvc.spec import implies, iff, in_re
from props import plss_stubs
from props.c10 import ARRANGEMENTS

ASSUMPTIONS = [
    "C03: abstraction contracts for TwpRgeFinder / SecFinder (7 arrangements of 0..2 matches each), PLSSPreprocessor, TractPreprocessor, "
    "deduce_layout, cleanup_desc, gen_flags_chunk; re / str methods of CPython never raise on str arguments",
]
LAYOUTS = ('TRS_desc', 'desc_STR', 'S_desc_TR', 'TR_desc_S', 'copy_all')


def _setup(ip, env):
    from pyvc import models
    from pytrs.parser.plssdesc import plss_parse
    tw, sc = ARRANGEMENTS[env['arrangement']]
    plss_stubs.install(ip, twprge_matches=tw, sec_matches=sc, layout_oracle=env.get('deduced'), pp_identity=False, pp_len_min=60)
    models.register_model(plss_parse.cleanup_desc, lambda ip_, a, k, n: plss_stubs.g_str('G_cleanup', a[0]))


def make_parser(text, layout, segment, sec_within, clean_up, require_colon, source):
    from pytrs.parser.plssdesc.plss_parse import PLSSParser
    return PLSSParser(text, layout=layout, segment=segment, sec_within=sec_within, clean_up=clean_up, require_colon=require_colon,
                      source=source, handed_down_config='')


def _parser_unit(arr, forced, segment):
    """forced: a layout handed in by the caller (whatever the text looks like); otherwise every layout deduce_layout can return"""
    ghost = {'arrangement': Const(arr)}
    if forced is None:
        ghost['deduced'] = Choice(*[Const(x) for x in LAYOUTS])
    return Unit(
        name=f'C03/PLSSParser[total, {arr}, layout {"forced " + forced if forced else "deduced"}{", segment" if segment else ""}]', prop='C03',
        target='props.c03:make_parser',
        params={'text': Str(), 'layout': Const(forced), 'segment': Const(segment), 'sec_within': Bool() if not segment else Const(False),
                'clean_up': Choice(Const(None), Const(True)) if not segment else Const(None),
                'require_colon': Choice(Const(False), Const('sec_colon_cautious')), 'source': Const(None)},
        ghost=ghost, requires=lambda text: len(text) >= 60, setup_params=_setup,
        ensures=[('returns_with_at_least_one_tract', lambda result: len(result.tracts._elements) >= 1)])


def _bad_text_units():
    from pyvc.values import Uninterp
    bad = Choice(Const(None), Const(5), Const(b'T154N-R97W Sec 14: NE/4'), Const(('NE/4',)), Const(1.5))
    return [
        Unit(name='C03/PLSSDesc.__init__[non-str text -> TypeError]', prop='C03', target='props.c03:new_desc',
             params={'text': bad, 'config': Choice(Const(None), Const('segment'))},
             ensures=[('never_accepted', lambda result: False)], raises={TypeError: True}),
        Unit(name='C03/PLSSDesc.__init__[config of a wrong type -> ConfigError]', prop='C03', target='props.c03:new_desc',
             params={'text': Str(), 'config': Choice(Const(5), Const(('segment',)), Const(1.5), Const(b'segment'))},
             ensures=[('never_accepted', lambda result: False)], raises={__import__('pytrs').parser.config.ConfigError: True}),
        Unit(name='C03/Tract.__init__[config of a wrong type -> ConfigError]', prop='C03', target='props.c03:new_tract',
             params={'text': Str(), 'config': Choice(Const(5), Const(('clean_qq',)), Const(1.5), Const(b'clean_qq'))},
             ensures=[('never_accepted', lambda result: False)], raises={__import__('pytrs').parser.config.ConfigError: True}),
    ]


OCR_NUM = r'[0-9SOIlsoiL\]\|]{1,3}'       # the number class of pp_twprge_ocr_scrub under IGNORECASE


def _ocr_unit():
    """with ocr_scrub the captured "numbers" may hold look-alikes that ocr_scrub_alpha_to_num does not map to digits
    (o, i, ], |): unpack_twprge must keep them instead of letting int() raise.  (Symbolic numbers drawn from OCR_NUM make the
    str.replace chain + int() undecidable for both solvers, so the numbers are a concrete sample; the all-strings part is bounded.)"""
    from props import c08
    return Unit(
        name='C03/unpack_twprge[ocr_scrub: sample look-alike numbers (concrete)]', prop='C03', target='props.c08:run_unpack',
        params={'twpnum': OneOf('1o4', '15]', 'i54', '9|', 'lS4', 'ISl', '154', 'O'), 'ns': Opt(Str(c08.NS_WORDS)),
                'rgenum': Choice(OneOf('9|', 'o', '97', 'l0I', ']'), Const(None)),
                'ew': Opt(Str(c08.EW_WORDS)), 'edge': Const('2'), 'default_ns': Const('n'), 'default_ew': Const('w'), 'ocr_scrub': Const(True)},
        ensures=[('returns_a_twprge_text', lambda result: result[0] == 'T')], raises={})


def verify_ns(val):
    from pytrs.parser.config.config import verify_default_ns
    return verify_default_ns(val)


def verify_ew(val):
    from pytrs.parser.config.config import verify_default_ew
    return verify_default_ew(val)


def _accepts(legal):
    def post(val, result):
        return len(val) >= 1 and val.lower()[0] in legal and result == val.lower()[0]
    return post


def _rejects(legal):
    def cond(val):
        return len(val) == 0 or val.lower()[0] not in legal
    return cond


def _verify_default_units():
    """the two validators behind every default-direction channel: for every string (the empty one included) and for non-strings
    they either return the lower-case first letter of a legal direction or raise their own documented exception, nothing else"""
    from pytrs.parser.config import DefaultNSError, DefaultEWError
    out = []
    for nm, fn, exc, legal in (('default_ns', 'verify_ns', DefaultNSError, ('n', 's')), ('default_ew', 'verify_ew', DefaultEWError, ('e', 'w'))):
        out.append(Unit(
            name=f'C03/verify_{nm}[every string]', prop='C03', target=f'props.c03:{fn}', params={'val': Str(ascii_only=True)},
            ensures=[('accepted_only_if_it_starts_with_a_legal_letter', _accepts(legal))],
            raises={exc: _rejects(legal)}))
        out.append(Unit(
            name=f'C03/verify_{nm}[not a string]', prop='C03', target=f'props.c03:{fn}',
            params={'val': Choice(Const(None), Const(5), Const(('n',)), Const(b'n'), Const(True))},
            ensures=[('never_accepted', lambda result: False)], raises={exc: True}))
    return out


def new_desc(text, config):
    from pytrs import PLSSDesc
    return PLSSDesc(text, config=config)


def new_tract(text, config):
    from pytrs import Tract
    return Tract(text, config=config)


def _borrowed():
    """units of other properties whose targets lie on the way from the entry points to the tracts: the same contracts, run
    under this property as exception-freedom obligations (their other postconditions come along)"""
    import copy
    from props import c06, c08, c13, c09
    out = []
    want = {
        'c06': (c06, ('[lots=-, aliquots=0, none]', '[lots=-, aliquots=0, all]', '[lots=blockA, aliquots=1, none]', '[lots=blockA+blockB, aliquots=0, none]')),
        'c08': (c08, ('C08/unpack_twprge', 'C08/unpack_twprge[illegal defaults]', 'C08/twprge_natural_to_short')),
        'c13': (c13, ('C13/unknown_setting[bare word]', 'C13/unknown_setting[name.value]')),
        'c09': (c09, ('C09/Tract.__init__[records its source]',)),
    }
    for key, (mod, names) in want.items():
        for u in mod.units():
            if any(u.name == n or u.name.endswith(n) for n in names):
                v = copy.copy(u)
                v.name = 'C03/no undocumented exception: ' + u.name.split('/', 1)[1]
                v.prop = 'C03'
                v.thorough_only = False
                out.append(v)
    return out


def units():
    us = []
    for arr in ARRANGEMENTS:
        us.append(_parser_unit(arr, None, False))
    for arr in ('TRS_desc: T S S', 'sec only', 'twprge only', 'nothing', 'desc_STR: S T'):
        for forced in LAYOUTS:
            us.append(_parser_unit(arr, forced, False))
    for arr in ('nothing', 'sec only', 'twprge only', 'TRS_desc: T S S'):
        for forced in (None, 'TRS_desc', 'S_desc_TR'):
            u = _parser_unit(arr, forced, True)
            # with a forced layout the chunker runs the real section / Twp/Rge patterns over the symbolic text (about 3 s a path):
            # two of those products stay in the quick tier, the rest runs in the thorough tier
            u.thorough_only = forced is not None and (arr, forced) not in (('nothing', 'TRS_desc'), ('sec only', 'TRS_desc'))
            us.append(u)
    return us + _bad_text_units() + _verify_default_units() + [_ocr_unit()] + _borrowed()


# ======================================================================================================================
# bounded tier (labelled bounded, never counted as proved): the real regexes and preprocessors on odd input
# ======================================================================================================================
NASTY = ['', ' ', '\n', ':', ',', 'Sec', 'Section', 'T154N-R97W', 'T154N-R97W Section NE/4', 'Section 4 of T154N-R97W: NE/4',
         'T154N-R97W the north part of Section,', 'T1o4N-R97W Sec 14: NE/4', 'T15]N-R97W Sec 14: NE/4', 'T154N-R9|W Sec 14: NE/4',
         'Township i54 North, Range 97 West, Section 14: NE/4', 'Sec 14: NE/4', 'Sec 14 NE/4', 'Sec 14, T154N-R97W', 'T154N-R97W Sec 14',
         'T154N-R97W Sec 14 - 11: NE/4', 'T154N-R97W Sec 1 - 37: Lots 4 - 1', 'T999N-R999W Sec 99: ALL', 'T0N-R0W Sec 0: ALL',
         'T154-R97 Sec 14: NE/4', 'T154N-R97W Secs 14: NE/4, 15: NW/4, T155N-R97W', 'Lot', 'Lots 1 -', 'Lot 1(', 'N/2 of', 'ALL of',
         'ä§½¼ T154N-R97W § 14: NE¼', 'T154N-R97W\nSec 14:\nNE/4\n', 'T154N-R97W Sec 14: ' + 'NE/4 ' * 40, 'T154N R97W Section 14 15 16',
         'NE/4 of Section 14, T154N-R97W', 'That part of T154N-R97W lying in Sec 14', 'T154N-R97W Sec 001: NE/4', 'T154N-R97W Sec 100: NE/4',
         'T154N-R97W: Sec 14: NE/4 T155N-R97W: Sec 1', '14: NE/4', 'T154N-R97W, T155N-R97W', 'Sec 14 Sec 15 Sec 16 T154N-R97W']
PARSE_KW = [{}, {'layout': 'TRS_desc'}, {'layout': 'desc_STR'}, {'layout': 'S_desc_TR'}, {'layout': 'TR_desc_S'}, {'layout': 'copy_all'},
            {'segment': True}, {'segment': True, 'layout': 'TRS_desc'}, {'segment': True, 'layout': 'S_desc_TR'}, {'sec_colon_required': True},
            {'sec_colon_cautious': True}, {'ocr_scrub': True}, {'sec_within': True}, {'sec_within': True, 'segment': True},
            {'clean_up': True}, {'clean_up': False}, {'parse_qq': True, 'clean_qq': True}, {'parse_qq': True, 'qq_depth': 1},
            {'parse_qq': True, 'qq_depth_min': 3, 'break_halves': True}, {'parse_qq': True, 'qq_depth_min': 1, 'qq_depth_max': 3},
            {'default_ns': 's', 'default_ew': 'e'}, {'commit': False, 'segment': True, 'sec_colon_required': True},
            {'ocr_scrub': True, 'segment': True, 'parse_qq': True}]
TRACT_KW = [{}, {'clean_qq': True}, {'suppress_lot_divs': True}, {'qq_depth': 1}, {'qq_depth_min': 1, 'qq_depth_max': 3}, {'qq_depth_min': 4},
            {'break_halves': True, 'qq_depth_min': 3}, {'commit': False}, {'qq_depth_max': 1}, {'qq_depth': 0}]


def invalid_argument_table():
    """(label, thunk, exception type that must come out and nothing else)"""
    import pytrs
    from pytrs.parser.config import ConfigError, DefaultNSError, DefaultEWError
    rows = []
    for bad in (None, 5, 1.5, b'T154N-R97W Sec 14: NE/4', ['NE/4'], ('x',)):
        rows.append((f'PLSSDesc({bad!r})', (lambda b=bad: pytrs.PLSSDesc(b)), TypeError))
        rows.append((f'Tract({bad!r}, parse_qq=True)', (lambda b=bad: pytrs.Tract(b, parse_qq=True)), TypeError))
    for bad in (5, 1.5, b'segment', ['segment'], ('segment',), {'segment': True}):
        rows.append((f'PLSSDesc(config={bad!r})', (lambda b=bad: pytrs.PLSSDesc('T154N-R97W Sec 14: NE/4', config=b)), ConfigError))
        rows.append((f'Tract(config={bad!r})', (lambda b=bad: pytrs.Tract('NE/4', config=b)), ConfigError))
        rows.append((f'Config({bad!r})', (lambda b=bad: pytrs.Config(b)), ConfigError))
    for bad in ('blah', 'segment,blah', 'n.blah', 'qq_depth.abc', 'clean_qq.maybe', 'qq_depth_min.x1', 'segment.2', 'foo.bar', 'qq_depth.True'):
        rows.append((f'Config({bad!r})', (lambda b=bad: pytrs.Config(b)), ValueError))
        rows.append((f'PLSSDesc(config={bad!r})', (lambda b=bad: pytrs.PLSSDesc('T154N-R97W Sec 14: NE/4', config=b)), ValueError))
        rows.append((f'Tract(config={bad!r})', (lambda b=bad: pytrs.Tract('NE/4', config=b, parse_qq=True)), ValueError))
    # (an empty string given as a keyword means "not given" to parse(); the statement does not ask for its rejection)
    rows.append(("Config('default_ns.')", (lambda: pytrs.Config('default_ns.')), DefaultNSError))
    rows.append(("Config('default_ew=')", (lambda: pytrs.Config('default_ew=')), DefaultEWError))
    rows.append(("Tract(config='default_ns.')", (lambda: pytrs.Tract('NE/4', config='default_ns.')), DefaultNSError))
    for bad in ('x', 'default', 'e', 'w', 'north-ish'[5:]):
        rows.append((f'Config(default_ns.{bad})', (lambda b=bad: pytrs.Config('default_ns.' + b)), DefaultNSError))
        rows.append((f'parse(default_ns={bad!r})', (lambda b=bad: pytrs.PLSSDesc('T154-R97 Sec 14: NE/4', wait_to_parse=True).parse(default_ns=b)),
                     DefaultNSError))
    for bad in ('x', 'default', 'n', 's'):
        rows.append((f'Config(default_ew.{bad})', (lambda b=bad: pytrs.Config('default_ew.' + b)), DefaultEWError))
        rows.append((f'parse(default_ew={bad!r})', (lambda b=bad: pytrs.PLSSDesc('T154-R97 Sec 14: NE/4', wait_to_parse=True).parse(default_ew=b)),
                     DefaultEWError))
    return rows


def _bounded_totality(tier, seed):
    import random
    import traceback
    import warnings
    import pytrs
    from props import gen
    warnings.simplefilter('ignore')
    rng = random.Random(seed)
    ev = 0
    distinct = set()
    violations = []
    samples = []

    def bad(inp, obs, exp):
        if len(violations) < 12:
            violations.append({'input': inp, 'observed': obs, 'expected': exp, 'replay_spec': ['props.c03:replay_bounded', {}]})
    n = 600 if tier == 'quick' else 6000
    texts = list(NASTY)
    texts += gen.token_soup(rng, n, max_tokens=10)
    well = []
    for desc in gen.abstract_descriptions(rng, n // 5):
        well.append(gen.render(desc, rng.choice(gen.LAYOUTS), twp_style=rng.randrange(6), sec_word=rng.choice(gen.SEC_WORDS),
                               colon=rng.random() < 0.7, newline=rng.random() < 0.3))
    for w in well:
        texts.append(w)
        cut = rng.randrange(len(w) + 1)
        texts.append(w[:cut])                   # truncated
        texts.append(w[cut:])
        toks = w.split(' ')
        rng.shuffle(toks)
        texts.append(' '.join(toks))            # shuffled
        pos = rng.randrange(len(w) + 1)
        texts.append(w[:pos] + rng.choice(['ä', '§', '½', '—', '\t', '\x00', '\U0001F600', ';;', '((', ')', '[', ']', '|']) + w[pos:])
    cfgs = gen.configs(rng, 40 if tier == 'quick' else 200)
    tract_cfgs = ['', 'clean_qq', 'suppress_lot_divs', 'qq_depth.1', 'qq_depth_min.3,break_halves', 'qq_depth_min.1,qq_depth_max.3', 'ocr_scrub',
                  'clean_qq,qq_depth_max.1', 'n,w', 's,e']

    def attempt(label, inp, f, want_tracts):
        nonlocal ev
        ev += 1
        try:
            r = f()
        except BaseException as e:      # noqa: any escape is a violation of totality
            bad(inp, f'{type(e).__name__}: {e}'[:300] + ' @ ' + traceback.format_exc().strip().splitlines()[-3].strip()[:160], 'completes without raising')
            return
        if want_tracts and len(r) < 1:
            bad(inp, 'zero tracts', 'at least one tract')
    for text in texts:
        distinct.add(text)
        cfg = rng.choice(cfgs)
        attempt('init', {'entry': 'PLSSDesc', 'text': text, 'config': cfg},
                lambda: pytrs.PLSSDesc(text, config=cfg, parse_qq=True).tracts, True)
        kw = rng.choice(PARSE_KW)
        attempt('parse', {'entry': 'PLSSDesc.parse', 'text': text, 'config': cfg, 'kwargs': kw},
                lambda: pytrs.PLSSDesc(text, config=cfg, wait_to_parse=True).parse(**kw), True)
        tcfg = rng.choice(tract_cfgs)
        attempt('tract', {'entry': 'Tract', 'text': text, 'config': tcfg},
                lambda: pytrs.Tract(text, trs=rng.choice(['154n97w14', None, 'XXXzXXXzXX', 'asdf']), config=tcfg, parse_qq=True).lots_qqs, False)
        tkw = rng.choice(TRACT_KW)
        attempt('tract.parse', {'entry': 'Tract.parse', 'text': text, 'config': tcfg, 'kwargs': tkw},
                lambda: pytrs.Tract(text, config=tcfg).parse(**tkw), False)
        if len(samples) < 4 and 10 < len(text) < 60 and rng.random() < 0.02:
            samples.append({'text': text, 'config': cfg, 'parse_kwargs': kw})
    # the whole product for the nasty texts
    for text in NASTY:
        for kw in PARSE_KW:
            for cfg in ('', 'segment', 'sec_colon_required', 'ocr_scrub,segment', 'sec_within,parse_qq'):
                attempt('parse', {'entry': 'PLSSDesc.parse', 'text': text, 'config': cfg, 'kwargs': kw},
                        lambda: pytrs.PLSSDesc(text, config=cfg, wait_to_parse=True).parse(**kw), True)
    # invalid arguments: the documented exception type, and only for invalid arguments
    for label, thunk, exc in invalid_argument_table():
        ev += 1
        try:
            thunk()
            bad({'entry': 'invalid argument', 'call': label}, 'accepted', exc.__name__)
        except BaseException as e:      # noqa
            if not isinstance(e, exc):
                bad({'entry': 'invalid argument', 'call': label}, f'{type(e).__name__}: {e}'[:200], exc.__name__)
    return {'evaluations': ev, 'distinct_nontrivial': len(distinct), 'violations': violations, 'samples': samples, 'exhaustive': False,
            'bound': f"{len(texts)} texts (hand-picked odd inputs, token soup of PLSS vocabulary <= 10 tokens, well-formed descriptions whole / truncated / "
                     f"shuffled / with a foreign character) x a random configuration out of {len(cfgs)} x 4 entry points (PLSSDesc init, PLSSDesc.parse "
                     f"with one of {len(PARSE_KW)} keyword sets, Tract init, Tract.parse); {len(NASTY)} odd texts x {len(PARSE_KW)} keyword sets x 5 "
                     "configurations; a table of invalid arguments",
            'rule': "no exception of any type; len(tracts) >= 1 for PLSSDesc; invalid arguments raise exactly the documented type"}


def replay_bounded(model):
    import warnings
    import pytrs
    warnings.simplefilter('ignore')
    entry = model.get('entry')
    try:
        if entry == 'PLSSDesc':
            n = len(pytrs.PLSSDesc(model['text'], config=model['config'], parse_qq=True).tracts)
        elif entry == 'PLSSDesc.parse':
            n = len(pytrs.PLSSDesc(model['text'], config=model['config'], wait_to_parse=True).parse(**model['kwargs']))
        elif entry == 'Tract':
            for trs in ('154n97w14', None, 'XXXzXXXzXX', 'asdf'):
                pytrs.Tract(model['text'], trs=trs, config=model['config'], parse_qq=True)
            n = 1
        elif entry == 'Tract.parse':
            pytrs.Tract(model['text'], config=model['config']).parse(**model['kwargs'])
            n = 1
        else:
            for label, thunk, exc in invalid_argument_table():
                if label == model.get('call'):
                    try:
                        thunk()
                        return {'confirmed': True, 'detail': 'accepted'}
                    except BaseException as e:      # noqa
                        return {'confirmed': not isinstance(e, exc), 'detail': f'{type(e).__name__}: {e}'}
            return {'confirmed': False, 'detail': 'unknown table row'}
    except BaseException as e:      # noqa
        return {'confirmed': True, 'detail': f'{type(e).__name__}: {e}'}
    return {'confirmed': n < 1, 'detail': f'{n} tracts'}


def bounded(tier, seed):
    return [{'name': 'C03-bounded-totality', 'run': lambda: _bounded_totality(tier, seed)}]
