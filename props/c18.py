"""C18 — filter/group operations partition the list; containers never drop silently.

Functions under contract: _TRSTractList.filter, filter_errors, filter_duplicates, _new_list_from_self, _group, group_by,
group_by_nested, unpack_group, _verify_iterable, _verify_individual, _handle_type_specially, _from_multiple, extend, append,
__iadd__, __add__, insert, __setitem__, TRS.is_error / is_undef.
Lists hold k = 0..3 symbolic elements (all element values at once); longer lists are covered by the bounded tier only.
"""
from pyvc.api import Unit, Int, Bool, Str, Opt, OneOf, Const, Choice, ObjT, Contract, FixedList
from pyvc.spec import implies, iff, in_re
from props.shapes import ContainerT, TRST, TractT

MOD = 'pytrs.parser.containers.containers'

ASSUMPTIONS = [
    "C18: lists of 0..3 elements with fully symbolic contents (bound on the length, not on the values); no loop "
    "invariants for unbounded length",
]


def same_objects(xs, ys):
    """two python lists hold the same objects in the same order"""
    return len(xs) == len(ys) and all([xs[n] is ys[n] for n in range(len(xs))])


def selected(old, keep):
    return [old[n] for n in range(len(old)) if keep[n]]


def vflag_key(e):
    return e.vflag


# ---- filter ---------------------------------------------------------------------------------------------------------------

def _filter_units():
    us = []
    for kind in ('Tract', 'TRS'):
        for k in (0, 1, 2, 3):
            for drop in (False, True):
                us.append(Unit(
                    name=f'C18/filter[{kind},k={k},drop={drop}]', prop='C18', target=f'{MOD}:_TRSTractList.filter',
                    params={'self': ContainerT(kind, k), 'key': Const(vflag_key), 'drop': Const(drop)},
                    ensures=[
                        ('exactly_the_matching_in_order', lambda old_self, result:
                            same_objects(result._elements, [e for e in old_self._elements if e.vflag])
                            and type(result) is type(old_self)),
                        ('rest_stays_in_order', lambda self, old_self, drop:
                            same_objects(self._elements, [e for e in old_self._elements if not (drop and e.vflag)])),
                    ]))
    return us


# ---- filter_errors --------------------------------------------------------------------------------------------------------

def spec_is_error(e, twp, rge, sec):
    return ((twp and e.twp_num is None and not e.twp_undef) or (rge and e.rge_num is None and not e.rge_undef)
            or (sec and e.sec_num is None and not e.sec_undef))


def spec_is_undef(e, twp, rge, sec):
    return (twp and e.twp_undef) or (rge and e.rge_undef) or (sec and e.sec_undef)


def _trs_init_fields(ip, obj, bound):
    """TRS(s): callee contract -- the new object's dict is the decomposition of s.  Here s is always `element.trs` of an
    element whose own dict satisfies the class invariant, and trs_to_dict is a fixed point on such strings (C12
    `fixed_point`), so the new dict equals the element's dict."""
    src = bound.get('trs')
    owner = ip.hooks.get(('trs_owner',), {}).get(id(src) if not hasattr(src, 't') else src.t.get_id())
    if owner is None:
        # any other string: a fresh TRS whose dict satisfies the class invariant; ghost field `made_from` remembers the
        # constructor argument
        from props.shapes import TRST
        fresh = TRST().make(ip, 'converted')
        obj.fields['_TRS__trs_dict'] = fresh.fields['_TRS__trs_dict']
        obj.fields['made_from'] = src
        return
    obj.fields['_TRS__trs_dict'] = owner
    obj.fields['made_from'] = src


TRS_INIT = Contract('TRS.__init__', name='TRS.__init__ (C12: trs_to_dict is a fixed point on standard-form strings)')
TRS_INIT.init_fields = _trs_init_fields


def _register_owners(ip, env):
    """remember which element dict each `.trs` string term belongs to (ghost bookkeeping for the TRS.__init__ contract)"""
    table = ip.hooks.setdefault(('trs_owner',), {})
    for v in env.values():
        elems = getattr(v, 'fields', {}).get('_elements') if hasattr(v, 'fields') else None
        for e in elems or []:
            d = e.fields.get('_TRS__trs_dict') or e.fields['_Tract__trs'].fields['_TRS__trs_dict']
            table[d['trs'].t.get_id()] = d


def _filter_errors_units():
    us = []
    for kind in ('Tract', 'TRS'):
        for k in (1, 2, 3):
            us.append(Unit(
                name=f'C18/filter_errors[{kind},k={k}]', prop='C18', target=f'{MOD}:_TRSTractList.filter_errors',
                params={'self': ContainerT(kind, k), 'twp': Bool(), 'rge': Bool(), 'sec': Bool(), 'undef': Bool(),
                        'drop': Choice(Const(False), Const(True))},
                uses=[TRS_INIT], setup_params=_register_owners,
                ensures=[
                    ('exactly_the_matching_in_order', lambda old_self, twp, rge, sec, undef, result:
                        same_objects(result._elements, [e for e in old_self._elements
                                                        if (undef and spec_is_undef(e, twp, rge, sec)) or spec_is_error(e, twp, rge, sec)])),
                    ('rest_stays_in_order', lambda self, old_self, twp, rge, sec, undef, drop:
                        same_objects(self._elements, [e for e in old_self._elements
                                                      if not (drop and ((undef and spec_is_undef(e, twp, rge, sec)) or spec_is_error(e, twp, rge, sec)))])),
                ]))
    return us


# ---- filter_duplicates ----------------------------------------------------------------------------------------------------

def dup_same(a, b, kind, method):
    """the criterion of filter_duplicates: are a and b duplicates under `method`"""
    if a is b:
        return True
    if kind == 'TRS':
        return a.trs == b.trs          # TRS objects compare (and hash) by their string
    if method == 'trs':
        return a.trs == b.trs
    if method == 'lots_qqs':
        # only parsed tracts are compared by their lots / aliquots (the shape gives every tract the same, empty, lots and aliquots)
        return a.parse_complete and b.parse_complete and a.trs == b.trs
    if method == 'desc':
        # derived key of the method: Twp/Rge/Sec and the (stripped) preprocessed description
        return a.trs + '_' + a.pp_desc.strip() == b.trs + '_' + b.pp_desc.strip()
    return False


def _dup_unit(kind, method, k, rep):
    eff = ('trs' if kind == 'TRS' else 'instance') if method == 'default' else method
    if True:
        if True:
            if True:
                return (Unit(
                    name=f'C18/filter_duplicates[{kind},{method},k={k}{",repeated instance" if rep else ""}]', prop='C18',
                    target=f'{MOD}:_TRSTractList.filter_duplicates',
                    params={'self': ContainerT(kind, k, repeat=rep), 'method': Const(method),
                            'drop': Choice(Const(False), Const(True))},
                    ensures=[
                        ('exactly_the_later_duplicates_in_order', lambda old_self, result: same_objects(
                            result._elements,
                            [old_self._elements[i] for i in range(len(old_self._elements))
                             if any([dup_same(old_self._elements[j], old_self._elements[i], kind, eff) for j in range(i)])])),
                        ('rest_stays_in_order', lambda self, old_self, drop: same_objects(
                            self._elements,
                            [old_self._elements[i] for i in range(len(old_self._elements))
                             if not (drop and any([dup_same(old_self._elements[j], old_self._elements[i], kind, eff) for j in range(i)]))])),
                    ]))


def _dup_units():
    us = []
    for kind, methods in (('Tract', ('default', 'instance', 'trs', 'desc', 'lots_qqs')), ('TRS', ('default', 'trs', 'instance'))):
        for method in methods:
            for k, rep in ((1, False), (2, False), (3, False), (3, True)):
                us.append(_dup_unit(kind, method, k, rep))
    us.append(Unit(name='C18/filter_duplicates[bad method]', prop='C18', target=f'{MOD}:_TRSTractList.filter_duplicates',
                   params={'self': ContainerT('Tract', 1), 'method': Const('nonsense'), 'drop': Const(False)},
                   ensures=[('rejected', lambda result: False)], raises={ValueError: True}))
    return us


# ---- grouping ---------------------------------------------------------------------------------------------------------------

def count_in(groups, e):
    """how many times the object e occurs in the lists of a flat group dict"""
    return sum([sum([1 for m in v._elements if m is e]) for k, v in groups.items()])


def key_of(e, attrs):
    return getattr(e, attrs[0]) if len(attrs) == 1 else tuple([getattr(e, a) for a in attrs])


def positions(old, members):
    return [[n for n in range(len(old)) if old[n] is m][0] for m in members]


def increasing(xs):
    return all([xs[n] < xs[n + 1] for n in range(len(xs) - 1)])


def flat_groups_ok(old, groups, attrs, cls):
    """every element in exactly one group, keyed by its attribute value(s); groups keep the original order"""
    return (
        all([count_in(groups, e) == 1 for e in old])
        and sum([len(v._elements) for k, v in groups.items()]) == len(old)
        and all([type(v) is cls for k, v in groups.items()])
        and all([all([key_of(m, attrs) == k for m in v._elements]) for k, v in groups.items()])
        and all([increasing(positions(old, v._elements)) for k, v in groups.items()])
        and all([groups.keys()[a] != groups.keys()[b] for a in range(len(groups)) for b in range(a)])
    )


def flatten_nested(d, prefix):
    """[(key path, list)] of a nested group dict"""
    out = []
    for k, v in d.items():
        if isinstance(v, dict):
            out = out + flatten_nested(v, prefix + [k])
        else:
            out = out + [(prefix + [k], v)]
    return out


def nested_groups_ok(old, groups, attrs, cls):
    leaves = flatten_nested(groups, [])
    return (
        all([sum([sum([1 for m in v._elements if m is e]) for path, v in leaves]) == 1 for e in old])
        and sum([len(v._elements) for path, v in leaves]) == len(old)
        and all([type(v) is cls and len(path) == len(attrs) for path, v in leaves])
        and all([all([all([getattr(m, attrs[n]) == path[n] for n in range(len(attrs))]) for m in v._elements]) for path, v in leaves])
        and all([increasing(positions(old, v._elements)) for path, v in leaves])
    )


def group_then_unpack(lst, attrs):
    groups = lst.group_by_nested(attrs)
    return type(lst).unpack_group(groups)


def _group_unit(kind, attrs, k):
    us = []
    if True:
        if True:
            if True:
                tag = f'{kind},{"+".join(attrs)},k={k}'
                us.append(Unit(
                    name=f'C18/group_by[{tag}]', prop='C18', target=f'{MOD}:_TRSTractList.group_by',
                    params={'self': ContainerT(kind, k), 'attribute': Const(list(attrs) if len(attrs) > 1 else attrs[0])},
                    ensures=[('partition', lambda self, old_self, result:
                              flat_groups_ok(old_self._elements, result, attrs, type(old_self))
                              and same_objects(self._elements, old_self._elements))]))
                if len(attrs) > 1:
                    us.append(Unit(
                        name=f'C18/group_by_nested[{tag}]', prop='C18', target=f'{MOD}:_TRSTractList.group_by_nested',
                        params={'self': ContainerT(kind, k), 'attribute': Const(list(attrs))},
                        ensures=[('partition', lambda self, old_self, result:
                                  nested_groups_ok(old_self._elements, result, attrs, type(old_self))
                                  and same_objects(self._elements, old_self._elements))]))
                    us.append(Unit(
                        name=f'C18/unpack_group[{tag}]', prop='C18', target='props.c18:group_then_unpack',
                        params={'lst': ContainerT(kind, k), 'attrs': Const(list(attrs))},
                        ensures=[('same_elements', lambda lst, result:
                                  len(result._elements) == len(lst._elements)
                                  and all([sum([1 for m in result._elements if m is e]) == 1 for e in lst._elements]))]))
    return us


def _group_units():
    us = []
    for kind, attrsets in (('Tract', (['twprge'], ['twprge', 'sec'], ['twp', 'rge', 'sec'])), ('TRS', (['trs'], ['twp', 'sec']))):
        for attrs in attrsets:
            for k in (0, 1, 2, 3):
                if k == 3 and len(attrs) == 3:
                    continue
                us += _group_unit(kind, attrs, k)
    return us


# ---- entry paths: nothing is dropped silently ----------------------------------------------------------------------------

def build_new(cls, items):
    return cls(items)


def build_extend(cls, items):
    lst = cls()
    lst.extend(items)
    return lst


def build_iadd(cls, items):
    lst = cls()
    lst += items
    return lst


def build_add(cls, items):
    return cls() + items


def build_append(cls, items):
    lst = cls()
    for x in items:
        lst.append(x)
    return lst


def build_insert(cls, items):
    lst = cls()
    for x in items:
        lst.insert(len(lst), x)
    return lst


def build_setitem(cls, items, first):
    lst = cls([first])
    for x in items:
        lst[0] = x
    return lst


def build_from_multiple(cls, items):
    # nesting: the first item alone, the rest inside a list inside a tuple
    if not isinstance(items, list):
        return cls.from_multiple(items)
    return cls.from_multiple(items[0], ([x for x in items[1:]],)) if items else cls.from_multiple()


def acceptable(cls_name, x):
    from pytrs import Tract, TRS
    if cls_name == 'TractList':
        return isinstance(x, Tract)
    return isinstance(x, (str, TRS, Tract))


def holds(cls_name, stored, supplied):
    """the stored element stands for the supplied one"""
    from pytrs import Tract, TRS
    if cls_name == 'TractList' or isinstance(supplied, TRS):
        return stored is supplied
    if isinstance(supplied, str):
        return isinstance(stored, TRS) and stored.made_from == supplied
    return isinstance(stored, TRS) and stored.made_from == supplied.trs


def _entry_unit(cls_name, builder, m):
    from pytrs.parser.containers.containers import TractList, TRSList
    cls = TractList if cls_name == 'TractList' else TRSList
    item = Choice(TractT(), TRST(), Str(), Int())
    params = {'cls': Const(cls), 'items': FixedList(*[item for _ in range(m)])}
    if builder is build_setitem:
        params['first'] = TractT()

    def post(items, result):
        if builder is build_setitem:
            return len(result._elements) == 1 and (len(items) == 0 or holds(cls_name, result._elements[0], items[len(items) - 1]))
        return len(result._elements) == len(items) and all([holds(cls_name, result._elements[n], items[n]) for n in range(len(items))])
    return Unit(
        name=f'C18/entry[{cls_name},{builder.__name__},m={m}]', prop='C18', target=f'props.c18:{builder.__name__}',
        params=params, uses=[TRS_INIT], setup_params=_register_owners_items,
        ensures=[('every_element_in_order', post),
                 ('only_acceptable', lambda items: all([acceptable(cls_name, x) for x in items]))],
        raises={TypeError: lambda items: not all([acceptable(cls_name, x) for x in items])})


def _register_owners_items(ip, env):
    table = ip.hooks.setdefault(('trs_owner',), {})
    for x in list(env.get('items', [])) + [env.get('first')]:
        if hasattr(x, 'fields') and '_Tract__trs' in x.fields:
            d = x.fields['_Tract__trs'].fields['_TRS__trs_dict']
            table[d['trs'].t.get_id()] = d


def _tractlist_into_trslist_unit(builder, k):
    from pytrs.parser.containers.containers import TRSList
    from pytrs import TRS

    def post(items, result):
        return (len(result._elements) == len(items._elements)
                and all([isinstance(result._elements[n], TRS) and result._elements[n].made_from == items._elements[n].trs
                         for n in range(len(items._elements))]))
    return Unit(
        name=f'C18/entry[TRSList from a TractList,{builder.__name__},k={k}]', prop='C18', target=f'props.c18:{builder.__name__}',
        params={'cls': Const(TRSList), 'items': ContainerT('Tract', k)}, uses=[TRS_INIT], setup_params=_register_owners,
        ensures=[('every_tract_converted_in_order', post)])


def _entry_units():
    us = [_tractlist_into_trslist_unit(b, k) for b in (build_new, build_extend, build_iadd, build_add, build_from_multiple)
          for k in (1, 2)]
    for cls_name in ('TractList', 'TRSList'):
        for b in (build_new, build_extend, build_iadd, build_add, build_append, build_insert, build_setitem, build_from_multiple):
            for m in (1, 2):
                us.append(_entry_unit(cls_name, b, m))
    return us


def units():
    return _filter_units() + _filter_errors_units() + _dup_units() + _group_units() + _entry_units()


def _old_units2():
    return _filter_units() + _filter_errors_units() + _dup_units() + _group_units()


def _old_units():
    return _filter_units() + _filter_errors_units()


# ======================================================================================================================
# bounded stand-in
# ======================================================================================================================
def _bounded_containers(tier, seed):
    import itertools
    import random
    import pytrs
    from pytrs import Tract, TRS, TractList, TRSList
    rng = random.Random(seed)
    pool = ['154n97w14', '154n97w14', '154n97w01', '153n97w14', '2s3e14', 'XXXzXXXzXX', '___z___z__', '154nXXXz14']
    descs = ['NE/4', 'NE/4 ', 'Lot 1', 'W/2']
    ev = 0
    distinct = set()
    violations = []
    samples = []

    def bad(inp, obs, exp):
        if len(violations) < 10:
            violations.append({'input': inp, 'observed': obs, 'expected': exp, 'replay_spec': None})
    maxlen = 4 if tier == 'quick' else 5
    combos = [c for n in range(0, maxlen + 1) for c in itertools.product(range(len(pool)), repeat=n)]
    if len(combos) > 3000:
        rng.shuffle(combos)
        combos = combos[:3000 if tier == 'quick' else 12000]
    for combo in combos:
        # every third list holds some tracts that were never parsed into lots / aliquots
        tracts = [Tract(descs[(i + n) % len(descs)], trs=pool[i], parse_qq=not (sum(combo) % 3 == 0 and n % 2 == 1)) for n, i in enumerate(combo)]
        if len(combo) >= 3 and combo[0] == combo[-1]:
            tracts[-1] = tracts[0]
        for kind in ('Tract', 'TRS'):
            def fresh():
                return TractList(tracts) if kind == 'Tract' else TRSList([TRS(t.trs) for t in tracts])
            base = fresh()
            orig = list(base)
            distinct.add((kind, combo))
            # filter / filter_errors
            for drop in (False, True):
                l = fresh() if kind == 'TRS' else TractList(tracts)
                o = list(l)
                pred = lambda e: e.sec_num is not None and e.sec_num > 1
                r = l.filter(pred, drop=drop)
                ev += 1
                if list(r) != [e for e in o if pred(e)] or list(l) != [e for e in o if not (drop and pred(e))]:
                    bad({'op': 'filter', 'kind': kind, 'trs': [pool[i] for i in combo], 'drop': drop}, [str(x) for x in r], 'matching in order')
                for undef in (False, True):
                    l = fresh() if kind == 'TRS' else TractList(tracts)
                    o = list(l)
                    crit = lambda e: TRS(e.trs).is_error() or (undef and TRS(e.trs).is_undef())
                    r = l.filter_errors(undef=undef, drop=drop)
                    ev += 1
                    if list(r) != [e for e in o if crit(e)] or list(l) != [e for e in o if not (drop and crit(e))]:
                        bad({'op': 'filter_errors', 'kind': kind, 'trs': [pool[i] for i in combo], 'drop': drop, 'undef': undef}, [str(x) for x in r], 'errors in order')
                for method in (('default', 'instance', 'trs', 'desc', 'lots_qqs') if kind == 'Tract' else ('default', 'trs')):
                    l = fresh() if kind == 'TRS' else TractList(tracts)
                    o = list(l)

                    def key(e):
                        if kind == 'TRS' or method == 'trs':
                            return e.trs
                        if method == 'desc':
                            return f"{e.trs}_{e.pp_desc.strip()}"
                        if method == 'lots_qqs':
                            # an unparsed tract has no lots / aliquots to compare: a duplicate by identity only
                            return f"{e.trs}_{sorted(set(e.lots_qqs))}" if e.parse_complete else id(e)
                        return id(e)
                    want = [n for n in range(len(o)) if any(o[j] is o[n] or key(o[j]) == key(o[n]) for j in range(n))]
                    r = l.filter_duplicates(method=method, drop=drop)
                    ev += 1
                    if [id(x) for x in r] != [id(o[n]) for n in want] or \
                            [id(x) for x in l] != [id(o[n]) for n in range(len(o)) if not (drop and n in want)]:
                        bad({'op': 'filter_duplicates', 'kind': kind, 'trs': [pool[i] for i in combo], 'method': method, 'drop': drop},
                            [str(x) for x in r], [str(o[n]) for n in want])
            # grouping
            for attrs in (['twprge'], ['twprge', 'sec'], ['twp', 'rge', 'sec']):
                g = base.group_by(attrs if len(attrs) > 1 else attrs[0])
                ev += 1
                flat = [(k, list(v)) for k, v in g.items()]
                members = [m for k, v in flat for m in v]
                okk = sorted(map(id, members)) == sorted(map(id, orig)) and len(members) == len(orig)
                for k, v in flat:
                    for m in v:
                        kk = getattr(m, attrs[0]) if len(attrs) == 1 else tuple(getattr(m, a) for a in attrs)
                        okk = okk and kk == k
                    kf = (lambda o2: getattr(o2, attrs[0])) if len(attrs) == 1 else (lambda o2: tuple(getattr(o2, a) for a in attrs))
                    okk = okk and [id(m) for m in v] == [id(o2) for o2 in orig if kf(o2) == k]
                if not okk:
                    bad({'op': 'group_by', 'kind': kind, 'trs': [pool[i] for i in combo], 'attrs': attrs}, str(g)[:200], 'partition')
                if len(attrs) > 1:
                    gn = base.group_by_nested(attrs)
                    back = type(base).unpack_group(gn)
                    ev += 1
                    if sorted(map(id, back)) != sorted(map(id, orig)):
                        bad({'op': 'group_by_nested+unpack_group', 'kind': kind, 'trs': [pool[i] for i in combo], 'attrs': attrs},
                            len(back), len(orig))
        if len(samples) < 3 and len(combo) == 3:
            samples.append({'trs': [pool[i] for i in combo], 'groups': {k: len(v) for k, v in TractList(tracts).group_by('twprge').items()}})
    # a TractList handed to a TRSList directly
    tl = TractList([Tract('NE/4', trs='154n97w14'), Tract('W/2', trs='154n97w15')])
    for how, mk in (('new', lambda: TRSList(tl)), ('extend', lambda: (lambda l: (l.extend(tl), l)[1])(TRSList())),
                    ('iadd', lambda: TRSList().__iadd__(tl)), ('add', lambda: TRSList() + tl), ('from_multiple', lambda: TRSList.from_multiple(tl))):
        ev += 1
        distinct.add(('trslist-from-tractlist', how))
        r = mk()
        if [type(x) for x in r] != [TRS, TRS] or [x.trs for x in r] != ['154n97w14', '154n97w15']:
            bad({'op': 'TRSList from TractList', 'how': how}, [type(x).__name__ for x in r], ['TRS', 'TRS'])
    # entry paths with foreign elements
    t1, t2 = Tract('NE/4', trs='154n97w14'), Tract('W/2', trs='154n97w15')
    d = pytrs.PLSSDesc('T154N-R97W Sec 14: NE/4, Sec 15: W/2')
    cases = [([t1, t2], True, True), ([t1, 'x'], False, True), ([t1, 3], False, False), (['154n97w14', TRS('154n97w15'), t1], False, True),
             ([t1, None], False, False), ([t1, [t2]], False, False), ([d], False, False)]
    for items, ok_tl, ok_trs in cases:
        for cls, ok in ((TractList, ok_tl), (TRSList, ok_trs)):
            for how in ('new', 'extend', 'iadd', 'add', 'insert', 'append', 'setitem'):
                ev += 1
                distinct.add(('entry', cls.__name__, how, repr(items)[:60]))
                try:
                    if how == 'new':
                        l = cls(items)
                    elif how == 'extend':
                        l = cls()
                        l.extend(items)
                    elif how == 'iadd':
                        l = cls()
                        l += items
                    elif how == 'add':
                        l = cls() + items
                    elif how == 'insert':
                        l = cls()
                        for x in items:
                            l.insert(len(l), x)
                    elif how == 'append':
                        l = cls()
                        for x in items:
                            l.append(x)
                    else:
                        l = cls([t1])
                        for x in items:
                            l[0] = x
                    n_expected = 1 if how == 'setitem' else len(items)
                    good = ok and len(l) == n_expected and all(isinstance(x, TRS if cls is TRSList else Tract) for x in l)
                    if not good:
                        bad({'op': 'entry', 'cls': cls.__name__, 'how': how, 'items': repr(items)[:80]}, [type(x).__name__ for x in l],
                            'every element or TypeError')
                except TypeError:
                    if ok:
                        bad({'op': 'entry', 'cls': cls.__name__, 'how': how, 'items': repr(items)[:80]}, 'TypeError', 'accepted')
    return {'evaluations': ev, 'distinct_nontrivial': len(distinct), 'violations': violations, 'samples': samples, 'exhaustive': False,
            'bound': f"lists of <= {maxlen} elements from a pool of {len(pool)} TRS values (with a repeated instance), "
                     "all filter/duplicate/group operations; 7 mixed-type iterables x 7 entry paths x 2 classes",
            'rule': "real container methods vs. list-comprehension oracles; non-trivial = distinct (class, element tuple)"}


def bounded(tier, seed):
    return [{'name': 'C18-bounded-container-oracle', 'run': lambda: _bounded_containers(tier, seed)}]
