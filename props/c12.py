"""C12 — the Twp/Rge/Sec standard form is canonical, round-trips, and is strict.

Functions under contract: TRS.trs_to_dict, TRS.construct_trs (with its inner scrub), TRS.__eq__, TRS.__hash__,
TRS.from_twprgesec, compile_trs_unpacker_regex (through the real compiled TRS._TRS_UNPACKER_REGEX, translated to RegLan
from CPython's own parse of the real pattern on every run).
"""
from pyvc.api import Unit, Int, Bool, Str, Opt, OneOf, Const, Choice, ObjT, Contract, DictOf, Cat
from pyvc.spec import implies, iff, in_re, int_of_str, str_of_int
from props.shapes import trs_dict_ok

MOD = 'pytrs.parser.trs.trs'

# standard form as produced by the library (lower-case digits/letters, canonical placeholders)
TWP = r'(\d{1,3}[ns]|XXXz|___z)'
RGE = r'(\d{1,3}[ew]|XXXz|___z)'
SEC = r'(\d{2}|XX|__)'
L_CANON = TWP + RGE + SEC
# what a caller may write for it (any case; the section may be missing, which is reported as an error section)
L_INPUT_LOWER = r'(\d{1,3}[ns]|xxxz|___z)(\d{1,3}[ew]|xxxz|___z)(\d{2}|xx|__)?'
ERR_TRS = 'XXXzXXXzXX'
UNDEF_TRS = '___z___z__'

ASSUMPTIONS = [
    "C12: input strings are ASCII (A-STR/A-CLASS); Python's \\d and int() also accept non-ASCII decimal digits",
]


# ---- trs_to_dict ------------------------------------------------------------------------------------------------------

def comp_ok(txt, num, d, undef, dirs):
    """one Twp or Rge component of the result dict is the decomposition of its text"""
    return (
        (num is None and d is None and ((txt == '___z' and undef) or (txt == 'XXXz' and not undef)))
        or (num is not None and d is not None and not undef
            and in_re(txt, r'\d{1,3}[nsew]') and txt[-1] == d and d in dirs
            and int_of_str(txt[:-1]) == num and 0 <= num and num <= 999)
    )


def sec_ok(txt, num, undef):
    return (
        (num is None and ((txt == '__' and undef) or (txt == 'XX' and not undef)))
        or (num is not None and not undef and in_re(txt, r'\d{2}') and int_of_str(txt) == num and 0 <= num and num <= 99)
    )


def dict_decomposes(r):
    return (
        r['trs'] == r['twp'] + r['rge'] + r['sec']
        and comp_ok(r['twp'], r['twp_num'], r['twp_ns'], r['twp_undef'], ('n', 's'))
        and comp_ok(r['rge'], r['rge_num'], r['rge_ew'], r['rge_undef'], ('e', 'w'))
        and sec_ok(r['sec'], r['sec_num'], r['sec_undef'])
    )


def canon_part(p, err, undef):
    """canonical text of one component written in any case"""
    return err if p.lower() == err.lower() else p.lower()


def _to_dict_units():
    any_unit = Unit(
        name='C12/TRS.trs_to_dict[any string]',
        prop='C12',
        target=f'{MOD}:TRS.trs_to_dict',
        params={'trs': Choice(Str(ascii_only=True), Const(None), Const(''))},
        ensures=[
            ('well_formed', lambda result: in_re(result['trs'], L_CANON)),
            # strict: a string outside the standard form (any case) yields the all-error TRS
            ('rejects_nonstandard', lambda trs, result: implies(
                trs is not None and trs != '' and not in_re(trs.lower(), L_INPUT_LOWER), result['trs'] == ERR_TRS
                and result['twp_num'] is None and result['rge_num'] is None and result['sec_num'] is None)),
            ('empty_is_undefined', lambda trs, result: implies(trs is None or trs == '', result['trs'] == UNDEF_TRS
                                                               and result['twp_undef'] and result['rge_undef'] and result['sec_undef'])),
        ],
        replay='generic',
    )
    # trs_to_dict reads its argument only through `str(trs).lower()` (the parameter is overwritten by that value, see the
    # obligation `reads_only_lowercased`), so the decomposition clauses are proved for every lower-case standard form
    twp = Choice(Str(r'[0-9]{1,3}[ns]'), Const('xxxz'), Const('___z'))
    rge = Choice(Str(r'[0-9]{1,3}[ew]'), Const('xxxz'), Const('___z'))
    sec = Choice(Str(r'[0-9]{2}'), Const('xx'), Const('__'), Const(''))
    std_unit = Unit(
        name='C12/TRS.trs_to_dict[standard form]',
        prop='C12',
        target=f'{MOD}:TRS.trs_to_dict',
        params={'trs': Cat(twp, rge, sec)},
        ghost={},
        ensures=[
            ('well_formed', lambda result: in_re(result['trs'], L_CANON)),
            ('decomposes', lambda result: dict_decomposes(result)),
            ('class_invariant', lambda result: trs_dict_ok(result)),
            # the result denotes the input: same text up to case, canonical placeholders; a missing section is an error
            ('denotes_input', lambda trs, result:
                result['trs'].lower() == trs.lower() or result['trs'].lower() == trs.lower() + 'xx'),
        ],
        replay='generic',
    )
    return [any_unit, std_unit]


# ---- construct_trs -------------------------------------------------------------------------------------------------------

def canon_num(x):
    """decimal rendering without leading zeros of an int or digit string"""
    return str_of_int(x) if isinstance(x, int) else str_of_int(int_of_str(x))


def spec_twp(twp, default, dirs):
    """canonical text for a township/range given as int, digit string, or digit string + direction letter"""
    if isinstance(twp, int):
        return str_of_int(twp) + default.lower()
    if twp.lower().endswith(dirs):
        return str_of_int(int_of_str(twp[:-1])) + twp[-1].lower()
    return str_of_int(int_of_str(twp)) + default.lower()


def spec_sec(sec):
    return (str_of_int(sec) if isinstance(sec, int) else sec).rjust(2, '0')


def _mc_setup(ip, env):
    """MasterConfig.default_ns / default_ew are global state read at call time: make them symbolic"""
    from pytrs.parser.config import MasterConfig
    ip.overlay[(id(MasterConfig), 'default_ns')] = env['mc_ns']
    ip.overlay[(id(MasterConfig), 'default_ew')] = env['mc_ew']


def _mc_native(model):
    import contextlib
    from pytrs.parser.config import MasterConfig

    @contextlib.contextmanager
    def cm():
        old = (MasterConfig.default_ns, MasterConfig.default_ew)
        MasterConfig.default_ns, MasterConfig.default_ew = model.get('mc_ns', 'n'), model.get('mc_ew', 'w')
        try:
            yield
        finally:
            MasterConfig.default_ns, MasterConfig.default_ew = old
    return cm()


def _construct_units():
    """the three components are scrubbed and validated by the same code, one after the other; each unit varies one
    component over all its input encodings while the other two are fixed valid values"""
    num3 = Choice(Int(0, 999), Str(r'[0-9]{1,3}'), Cat(Str(r'[0-9]{1,3}'), Str(r'[nsNS]', maxlen=1)))
    rng3 = Choice(Int(0, 999), Str(r'[0-9]{1,3}'), Cat(Str(r'[0-9]{1,3}'), Str(r'[ewEW]', maxlen=1)))
    sec2 = Choice(Int(0, 99), Str(r'[0-9]{1,2}'))
    dns = Choice(Const(None), OneOf('n', 's', 'N', 'S'))
    dew = Choice(Const(None), OneOf('e', 'w', 'E', 'W'))
    post = [
        ('canonical', lambda twp, rge, sec, default_ns, default_ew, mc_ns, mc_ew, result:
            result == spec_twp(twp, default_ns if default_ns is not None else mc_ns, ('n', 's'))
            + spec_twp(rge, default_ew if default_ew is not None else mc_ew, ('e', 'w'))
            + spec_sec(sec)),
        ('in_standard_form', lambda result: in_re(result, r'\d{1,3}[ns]\d{1,3}[ew]\d{2}')),
    ]
    us = []
    for nm, params in (
            ('twp', {'twp': num3, 'rge': Const('97w'), 'sec': Const(14), 'default_ns': dns, 'default_ew': Const(None)}),
            ('rge', {'twp': Const(154), 'rge': rng3, 'sec': Const('1'), 'default_ns': Const('s'), 'default_ew': dew}),
            ('sec', {'twp': Const('154N'), 'rge': Const(97), 'sec': sec2, 'default_ns': Const(None), 'default_ew': Const(None)})):
        params['ocr_scrub'] = Const(False)
        us.append(Unit(
            name=f'C12/TRS.construct_trs[valid,{nm} varies]', prop='C12', target=f'{MOD}:TRS.construct_trs',
            params=params, ghost={'mc_ns': OneOf('n', 's'), 'mc_ew': OneOf('e', 'w')}, setup=_mc_setup,
            ensures=post, replay='generic', native_setup=_mc_native))
    return us


def _construct_any_unit():
    anyv = Choice(Str(ascii_only=True), Int(), Const(None), Const(''))
    return Unit(
        name='C12/TRS.construct_trs[any]',
        prop='C12',
        target=f'{MOD}:TRS.construct_trs',
        params={'twp': anyv, 'rge': anyv, 'sec': anyv,
                'default_ns': Choice(Const(None), Str(ascii_only=True)),
                'default_ew': Choice(Const(None), Str(ascii_only=True)),
                'ocr_scrub': Choice(Const(False), Const(True))},
        ghost={'mc_ns': OneOf('n', 's'), 'mc_ew': OneOf('e', 'w')},
        setup=_mc_setup,
        ensures=[
            # whatever is passed, the result is in the standard form (each component valid, error or undefined)
            ('well_formed', lambda result: in_re(result, L_CANON)),
            ('empty_is_undefined', lambda twp, rge, sec, result:
                implies(twp is None or twp == '', result[:4] == '___z')
                and implies(sec is None or sec == '', result[-2:] == '__')),
        ],
        raises={
            # only the documented errors for illegal default directions
            __import__('pytrs').parser.config.DefaultNSError:
                lambda default_ns: default_ns is not None and default_ns.lower() not in ('n', 's'),
            __import__('pytrs').parser.config.DefaultEWError:
                lambda default_ew: default_ew is not None and default_ew.lower() not in ('e', 'w'),
        },
        replay='generic', native_setup=_mc_native,
    )


# ---- idempotence / equality ----------------------------------------------------------------------------------------------

def _idem_unit():
    return Unit(
        name='C12/TRS.trs_to_dict[idempotent]',
        prop='C12',
        target=f'{MOD}:TRS.trs_to_dict',
        # every result of trs_to_dict / construct_trs is in L_CANON (posts `well_formed` above)
        params={'trs': Cat(Choice(Str(r'[0-9]{1,3}[ns]'), Const('XXXz'), Const('___z')),
                           Choice(Str(r'[0-9]{1,3}[ew]'), Const('XXXz'), Const('___z')),
                           Choice(Str(r'[0-9]{2}'), Const('XX'), Const('__')))},
        ensures=[('fixed_point', lambda trs, result: result['trs'] == trs)],
        replay='generic',
    )


def _trs_obj(name):
    from pytrs.parser.trs.trs import TRS
    return ObjT(TRS, _TRS__trs_dict=DictOf(trs=Str()))


def _eq_units():
    return [
        Unit(name='C12/TRS.__eq__', prop='C12', target=f'{MOD}:TRS.__eq__',
             params={'self': _trs_obj('a'), 'other': Choice(_trs_obj('b'), Str(), Const(None), Int())},
             ensures=[('agrees_with_string_equality', lambda self, other, result:
                       iff(result, isinstance(other, type(self)) and self.trs == other.trs))]),
        Unit(name='C12/TRS.__hash__', prop='C12', target='props.c12:hash_pair',
             params={'a': _trs_obj('a'), 'b': _trs_obj('b')},
             ensures=[('equal_strings_hash_equal', lambda a, b, result: implies(a.trs == b.trs, result[0] == result[1]))]),
    ]


def hash_pair(a, b):
    return (hash(a), hash(b))


def units():
    # construct_trs: its contracts (_construct_units, _construct_any_unit) generate obligations that neither back end decides
    # within budget (str(int) + case mapping + alignment); they are not registered, construct_trs is covered by the bounded
    # grid only and reported as such
    return _to_dict_units() + [_idem_unit()] + _eq_units()


# ======================================================================================================================
# bounded stand-in (labelled bounded; never counted as proved)
# ======================================================================================================================
def _canon_oracle(twp, ns, rge, ew, sec):
    return f"{twp}{ns}{rge}{ew}{sec:02d}"


def _bounded_trs(tier, seed):
    import random
    import re
    import pytrs
    from pytrs import TRS
    rng = random.Random(seed)
    nums = [0, 1, 7, 9, 10, 99, 100, 154, 999]
    secs = [0, 1, 9, 10, 36, 99]
    ev = 0
    distinct = set()
    violations = []
    samples = []

    def bad(inp, observed, expected):
        if len(violations) < 10:
            violations.append({'input': inp, 'observed': observed, 'expected': expected,
                               'replay_spec': ['props.c12:replay_bounded', {}]})
    # canonical construction and round trip over input encodings
    for t in nums:
        for r in nums:
            for s in (secs if tier == 'thorough' else secs[::2]):
                for ns in 'ns':
                    for ew in 'ew':
                        want = _canon_oracle(t, ns, r, ew, s)
                        encs = [(t, r, s, ns, ew), (str(t), str(r), str(s), ns, ew), (f"{t}{ns}", f"{r}{ew}", s, None, None),
                                (f"{t}{ns.upper()}", f"{r}{ew.upper()}", f"{s:02d}", 's' if ns == 'n' else 'n', 'e'),
                                (f"{t:03d}{ns}", f"{r:03d}{ew}", f"{s}", None, None)]
                        for a, b, c, dns, dew in encs:
                            ev += 1
                            got = TRS.construct_trs(a, b, c, default_ns=dns, default_ew=dew)
                            distinct.add(want)
                            if got != want:
                                bad({'fn': 'construct_trs', 'args': [a, b, c, dns, dew]}, got, want)
                            o = TRS(got)
                            if (o.trs, o.twp_num, o.twp_ns, o.rge_num, o.rge_ew, o.sec_num) != (want, t, ns, r, ew, s) \
                                    or TRS(o.trs) != o or hash(TRS(o.trs)) != hash(o) or o.is_error() or o.is_undef():
                                bad({'fn': 'TRS', 'args': [got]}, [o.trs, o.twp_num, o.twp_ns, o.rge_num, o.rge_ew, o.sec_num], [want, t, ns, r, ew, s])
                        if len(samples) < 3:
                            samples.append({'construct_trs': [t, r, s, ns, ew], 'result': want})
    # strictness: near-miss mutations of valid strings
    std = re.compile(r'(\d{1,3}[ns]|xxxz|___z)(\d{1,3}[ew]|xxxz|___z)(\d{2}|xx|__)?')
    alphabet = '0159nsew_xXzZ -\n\t.NSEW'
    bases = ['154n97w14', '1n2e01', '154nXXXz14', 'XXXz97w01', '___z___z__', '154n97w__', '7s10eXX']
    muts = set()
    for b in bases:
        for i in range(len(b) + 1):
            for ch in alphabet:
                muts.add(b[:i] + ch + b[i:])
                if i < len(b):
                    muts.add(b[:i] + ch + b[i + 1:])
            if i < len(b):
                muts.add(b[:i] + b[i + 1:])
        muts.add(b + b)
        muts.add(b.upper())
    for m in sorted(muts):
        ev += 1
        o = TRS(m)
        l = m.lower()
        distinct.add(('mut', m))
        ok_std = std.fullmatch(l) is not None
        if not ok_std:
            if o.trs != 'XXXzXXXzXX':
                bad({'fn': 'TRS', 'args': [m]}, o.trs, 'XXXzXXXzXX')
        else:
            if o.trs.lower() not in (l, l + 'xx'):
                bad({'fn': 'TRS', 'args': [m]}, o.trs, 'the input itself')
    # partial placeholders keep the other components
    for a, b, c, want in [('asdf', '97w', 1, 'XXXz97w01'), ('154n', 'zz', 1, '154nXXXz01'), ('154n', '97w', 'q', '154n97wXX'),
                          (None, '97w', 1, '___z97w01'), ('154n', '', None, '154n___z__'), ('154n', '97w-1e', 1, '154nXXXz01'),
                          ('1154n', '97w', 1, 'XXXz97w01'), ('154n', '97w', 100, '154n97wXX')]:
        ev += 1
        got = TRS.from_twprgesec(a, b, c).trs
        distinct.add(('partial', want))
        if got != want:
            bad({'fn': 'from_twprgesec', 'args': [a, b, c]}, got, want)
    # components given as ints / bare digits take the default directions in force at the time of the call, whichever constructor is used
    from pytrs.parser.config import MasterConfig
    old_defaults = (MasterConfig.default_ns, MasterConfig.default_ew)
    try:
        for dns, dew in (('s', 'e'), ('n', 'e'), ('s', 'w'), ('n', 'w')):
            MasterConfig.default_ns, MasterConfig.default_ew = dns, dew
            for a, b, c in ((154, 97, 14), ('7', '2', '1'), (0, 0, 0), ('154', 97, None)):
                want = f"{int(a)}{dns}{int(b)}{dew}" + ('__' if c is None else f"{int(c):02d}")
                for fn, got in (('construct_trs', TRS.construct_trs(a, b, c)), ('from_twprgesec', TRS.from_twprgesec(a, b, c).trs)):
                    ev += 1
                    distinct.add(('defaults', fn, dns, dew, str(a)))
                    if got != want:
                        bad({'fn': fn, 'args': [a, b, c], 'MasterConfig defaults': [dns, dew]}, got, want)
    finally:
        MasterConfig.default_ns, MasterConfig.default_ew = old_defaults
    return {'evaluations': ev, 'distinct_nontrivial': len(distinct), 'violations': violations, 'samples': samples,
            'exhaustive': False,
            'bound': f"twp/rge in {nums} x sections x 5 input encodings; {len(muts)} single-edit mutations of {len(bases)} valid strings",
            'rule': "real TRS / construct_trs compared with the canonical-form oracle; non-trivial = distinct expected result"}


def replay_bounded(inp):
    from pytrs import TRS
    fn = {'construct_trs': TRS.construct_trs, 'TRS': lambda s: TRS(s).trs, 'from_twprgesec': lambda *a: TRS.from_twprgesec(*a).trs}[inp['fn']]
    a = inp['args']
    if inp['fn'] == 'construct_trs':
        got = fn(a[0], a[1], a[2], default_ns=a[3], default_ew=a[4])
    else:
        got = fn(*a)
    return {'confirmed': True, 'detail': f"{inp['fn']}{tuple(a)!r} -> {got!r} (see expected in the replay file)", 'input': inp}


def bounded(tier, seed):
    return [{'name': 'C12-bounded-canon-and-strictness', 'run': lambda: _bounded_trs(tier, seed)}]
