"""Deterministic generators of PLSS descriptions for the bounded tiers (C01, C03, C04, C05, C09, C10, C20).

An abstract description is a list of Twp/Rge groups; each group has a list of section groups; each section group is a list of
items (single number or range) plus one description block.  `render` produces the text in one of the four documented layouts
with a chosen spelling style; `expected_tracts` is the oracle.
"""
import itertools
import random

LAYOUTS = ('TRS_desc', 'desc_STR', 'S_desc_TR', 'TR_desc_S')

TWPRGE_STYLES = (
    lambda t, ns, r, ew: f"T{t}{ns.upper()}-R{r}{ew.upper()}",
    lambda t, ns, r, ew: f"Township {t} {'North' if ns == 'n' else 'South'}, Range {r} {'West' if ew == 'w' else 'East'}",
    lambda t, ns, r, ew: f"Twp. {t} {ns.upper()}., Rge. {r} {ew.upper()}.",
    lambda t, ns, r, ew: f"{t}{ns.upper()}-{r}{ew.upper()}",
    lambda t, ns, r, ew: f"t{t}{ns}-r{r}{ew}",
    lambda t, ns, r, ew: f"T{t}{ns.upper()} R{r}{ew.upper()}",
)
SEC_WORDS = ('Sec', 'Section', 'Sec.', 'sec', 'SECTION', '§')
BLOCKS = (
    'NE/4', 'Lots 1 - 3, S/2NE/4', 'That part of the NE/4 lying north of the river', 'ALL',
    'W/2W/2, insofar as it lies within the Basin', 'Lot 2 (39.57 acres), NW/4SE/4', 'E½', 'beginning at a point 300 feet east',
    'N/2 less and except the wellbore of the Johnson #1 well', 'Goose Island',
)
THROUGH = (' - ', '-', ' through ', ' thru ', ' to ', '–')
ANDS = (', ', ' and ', ' & ', ', and ')


def render_secs(items, word, through=' - ', conj=', ', repeat_word=False, plural=True):
    """items: list of int | (a, b).  'Sections 1 - 3, 5 and 7'"""
    multi = len(items) > 1 or isinstance(items[0], tuple)
    w = word
    if multi and plural and word in ('Sec', 'Section', 'sec', 'SECTION'):
        w = {'Sec': 'Secs', 'Section': 'Sections', 'sec': 'secs', 'SECTION': 'SECTIONS'}[word]
    parts = []
    for n, it in enumerate(items):
        s = f"{it[0]}{through}{it[1]}" if isinstance(it, tuple) else str(it)
        if repeat_word and n > 0:
            s = f"{word} {s}"
        parts.append(s)
    if len(parts) == 1:
        body = parts[0]
    else:
        body = conj.join(parts) if conj not in (' and ', ' & ', ', and ') else ', '.join(parts[:-1]) + conj + parts[-1]
        if len(parts) == 2 and conj in (' and ', ' & '):
            body = parts[0] + conj + parts[1]
    return f"{w} {body}"


def expand(items):
    out = []
    for it in items:
        if isinstance(it, tuple):
            a, b = it
            step = 1 if b >= a else -1
            out.extend(range(a, b + step, step))
        else:
            out.append(it)
    return out


def std_twprge(t, ns, r, ew):
    return f"{t}{ns}{r}{ew}"


def expected_tracts(desc):
    out = []
    for (t, ns, r, ew), secgroups in desc:
        for items, block in secgroups:
            for s in expand(items):
                out.append((f"{std_twprge(t, ns, r, ew)}{s:02d}", block))
    return out


def render(desc, layout, twp_style=0, sec_word='Sec', colon=True, sep=', ', through=' - ', conj=', ', newline=False):
    tw = TWPRGE_STYLES[twp_style]
    chunks = []
    for (t, ns, r, ew), secgroups in desc:
        T = tw(t, ns, r, ew)
        if layout == 'TRS_desc':
            parts = [f"{render_secs(items, sec_word, through, conj)}{':' if colon else ' -'} {block}" for items, block in secgroups]
            chunks.append(f"{T}{' ' if not newline else chr(10)}" + sep.join(parts))
        elif layout == 'desc_STR':
            parts = [f"{block} of {render_secs(items, sec_word, through, conj)}" for items, block in secgroups]
            chunks.append(sep.join(parts) + f", {T}")
        elif layout == 'S_desc_TR':
            parts = [f"{render_secs(items, sec_word, through, conj)}{':' if colon else ' -'} {block}" for items, block in secgroups]
            chunks.append(sep.join(parts) + f", {T}")
        else:   # TR_desc_S
            parts = [f"{block} of {render_secs(items, sec_word, through, conj)}" for items, block in secgroups]
            chunks.append(f"{T}: " + sep.join(parts))
    joiner = '\n' if newline else ('; ' if layout in ('TRS_desc', 'TR_desc_S') else '; ')
    return joiner.join(chunks)


def abstract_descriptions(rng, n, max_groups=2, max_secgroups=3, blocks=BLOCKS):
    out = []
    for _ in range(n):
        desc = []
        used = set()
        for _g in range(rng.randint(1, max_groups)):
            while True:
                tr = (rng.choice([1, 7, 12, 99, 154, 100]), rng.choice('ns'), rng.choice([2, 9, 10, 97, 101]), rng.choice('ew'))
                if tr not in used:
                    used.add(tr)
                    break
            sgs = []
            for _s in range(rng.randint(1, max_secgroups)):
                kind = rng.random()
                if kind < 0.5:
                    items = [rng.randint(1, 36)]
                elif kind < 0.75:
                    a = rng.randint(1, 33)
                    items = [(a, a + rng.randint(1, 3))]
                else:
                    items = sorted(rng.sample(range(1, 37), rng.randint(2, 3)))
                sgs.append((items, rng.choice(blocks)))
            desc.append((tr, sgs))
        out.append(desc)
    return out


VOCAB = ['T154N-R97W', 'T155N-R97W', '154N-97W', 'Township 154 North, Range 97 West', 'T154-R97', 'Sec', 'Section', 'Sec.', 'Sections',
         '14', '15', '1 - 3', '14:', '15:', ':', ',', ';', 'NE/4', 'N/2', 'Lot', 'Lots', '1', '2', 'of', 'the', 'and', 'in', 'ALL',
         'less and except', 'insofar as', 'including', 'wellbore', 'surface to the base of', 'SW¼', 'N½', 'through', '-', '(40.0)',
         '5th P.M.', 'that part of', '\n', 'ä', '§', 'T1o4N-R97W', '']


def token_soup(rng, n, max_tokens=8):
    out = []
    for _ in range(n):
        k = rng.randint(0, max_tokens)
        out.append(' '.join(rng.choice(VOCAB) for _ in range(k)).replace(' ,', ',').replace(' :', ':'))
    return out


CONFIG_WORDS = ['', 'segment', 'sec_within', 'sec_colon_required', 'sec_colon_cautious', 'ocr_scrub', 'clean_qq', 'parse_qq',
                'qq_depth.1', 'qq_depth_min.3', 'qq_depth_max.1', 'break_halves', 's', 'e', 'copy_all', 'TRS_desc', 'desc_STR',
                'S_desc_TR', 'TR_desc_S', 'suppress_lot_divs']


def configs(rng, n):
    out = ['', 'parse_qq']
    for _ in range(n):
        k = rng.randint(1, 4)
        out.append(','.join(sorted(set(rng.choice(CONFIG_WORDS) for _ in range(k)) - {''})))
    return out
