"""Symbolic shapes of library objects (class invariants used as preconditions).

The TRS class invariant `trs_dict_inv` is *proved* as the postcondition of TRS.trs_to_dict in props/c12.py;
here it is the assumption under which container functions are verified.
"""
import z3
from pyvc.api import T
from pyvc.values import SV, SOpt, Obj, fresh_name
from pyvc.models import ObjSeq, GhostList

TRS_FIELDS = {
    # key: (sort, optional?)
    'trs': ('str', False), 'twp': ('str', False), 'twp_num': ('int', True), 'twp_ns': ('str', True),
    'twp_undef': ('bool', False), 'rge': ('str', False), 'rge_num': ('int', True), 'rge_ew': ('str', True),
    'rge_undef': ('bool', False), 'sec': ('str', False), 'sec_num': ('int', True), 'sec_undef': ('bool', False),
}
_SORT = {'str': z3.StringSort(), 'int': z3.IntSort(), 'bool': z3.BoolSort()}


def trs_dict_inv_terms(d):
    """class invariant of a TRS dict over z3 terms: d[key] = (isnone term | None, value term)"""
    def none(k):
        return d[k][0]

    def val(k):
        return d[k][1]
    return z3.And(
        none('twp_num') == none('twp_ns'),
        z3.Implies(z3.Not(none('twp_num')), z3.And(val('twp_num') >= 0, val('twp_num') <= 999,
                                                    z3.Or(val('twp_ns') == z3.StringVal('n'), val('twp_ns') == z3.StringVal('s')))),
        none('rge_num') == none('rge_ew'),
        z3.Implies(z3.Not(none('rge_num')), z3.And(val('rge_num') >= 0, val('rge_num') <= 999,
                                                    z3.Or(val('rge_ew') == z3.StringVal('e'), val('rge_ew') == z3.StringVal('w')))),
        z3.Implies(z3.Not(none('sec_num')), z3.And(val('sec_num') >= 0, val('sec_num') <= 99)),
        z3.Implies(val('twp_undef'), none('twp_num')),
        z3.Implies(val('rge_undef'), none('rge_num')),
        z3.Implies(val('sec_undef'), none('sec_num')),
    )


class TRSElemSeq(T):
    """`_elements` of a TRSList / TractList: unbounded list of TRS (or Tract) objects satisfying the class invariant."""

    def __init__(self, kind='TRS'):
        self.kind = kind

    def make(self, ip, name):
        from pytrs.parser.trs.trs import TRS
        from pytrs.parser.tract.tract import Tract
        length = z3.Int(fresh_name(name + '_len'))
        ip.ctx.assume(length >= 0)
        I = z3.IntSort()
        fns = {}
        for k, (srt, opt) in TRS_FIELDS.items():
            fns[k] = (z3.Function(fresh_name(f'{name}_{k}_none'), I, z3.BoolSort()) if opt else None,
                      z3.Function(fresh_name(f'{name}_{k}'), I, _SORT[srt]))
        uid = z3.Function(fresh_name(name + '_uid'), I, I)
        kind = self.kind

        def terms_at(idx):
            return {k: ((fn_none(idx) if fn_none is not None else None), fn(idx)) for k, (fn_none, fn) in fns.items()}

        def maker(ip_, idx):
            d = {}
            for k, (n, v) in terms_at(idx).items():
                d[k] = SOpt(n, SV(v)) if n is not None else SV(v)
            trs = Obj(TRS, {'_TRS__trs_dict': d}, tag=f'{name}[{idx}]')
            if kind == 'TRS':
                return trs
            return Obj(Tract, {'_Tract__trs': trs, '_Tract__uid': SV(uid(idx))}, tag=f'{name}[{idx}]')
        i = z3.Int(fresh_name('inv_i'))
        j = z3.Int(fresh_name('inv_j'))
        ip.ctx.assume(z3.ForAll([i], trs_dict_inv_terms(terms_at(i))))
        if kind == 'Tract':
            # creation counter is strictly increasing in creation order; positions here are arbitrary, so only
            # injectivity is assumed
            pass
        seq = ObjSeq(SV(length), maker, tag=name)

        def concretize(model):
            n = model.eval(length, model_completion=True).as_long()
            out = []
            for q in range(min(n, 12)):
                row = {}
                for k, (fn_none, fn) in fns.items():
                    if fn_none is not None and z3.is_true(model.eval(fn_none(z3.IntVal(q)), model_completion=True)):
                        row[k] = None
                    else:
                        from pyvc.api import _ev
                        row[k] = _ev(model, fn(z3.IntVal(q)))
                if kind == 'Tract':
                    from pyvc.api import _ev
                    row['__uid'] = _ev(model, uid(z3.IntVal(q)))
                out.append(row)
            return {'len': n, 'elements': out}
        seq.concretize = concretize
        return GhostList(seq, tag=name)


def trs_dict_ok(d):
    """class invariant of a TRS dict, as a contract clause (proved for TRS.trs_to_dict in C12, assumed for the elements
    of containers in C17/C18)"""
    return (
        ((d['twp_num'] is None) == (d['twp_ns'] is None))
        and (d['twp_num'] is None or (0 <= d['twp_num'] and d['twp_num'] <= 999 and (d['twp_ns'] == 'n' or d['twp_ns'] == 's')))
        and ((d['rge_num'] is None) == (d['rge_ew'] is None))
        and (d['rge_num'] is None or (0 <= d['rge_num'] and d['rge_num'] <= 999 and (d['rge_ew'] == 'e' or d['rge_ew'] == 'w')))
        and (d['sec_num'] is None or (0 <= d['sec_num'] and d['sec_num'] <= 99))
        and (not d['twp_undef'] or d['twp_num'] is None)
        and (not d['rge_undef'] or d['rge_num'] is None)
        and (not d['sec_undef'] or d['sec_num'] is None)
    )


class TRST(T):
    """one TRS object whose dict fields are symbolic (class invariant assumed; proved in C12)"""

    def __init__(self, with_inv=True):
        self.with_inv = with_inv

    def make(self, ip, name):
        from pytrs.parser.trs.trs import TRS
        d = {}
        terms = {}
        for k, (srt, opt) in TRS_FIELDS.items():
            v = z3.Const(fresh_name(f'{name}_{k}'), _SORT[srt])
            if opt:
                n = z3.Bool(fresh_name(f'{name}_{k}_none'))
                d[k] = SOpt(n, SV(v))
                terms[k] = (n, v)
            else:
                d[k] = SV(v)
                terms[k] = (None, v)
        if self.with_inv:
            ip.ctx.assume(trs_dict_inv_terms({k: ((n if n is not None else z3.BoolVal(False)), v) for k, (n, v) in terms.items()}))
        return Obj(TRS, {'_TRS__trs_dict': d}, tag=name)


class TractT(T):
    """one Tract object: symbolic TRS, description text, creation counter and a ghost boolean `vflag`"""

    def make(self, ip, name):
        from pytrs.parser.tract.tract import Tract
        trs = TRST().make(ip, name + '_trs')
        return Obj(Tract, {
            '_Tract__trs': trs, '_Tract__uid': SV(z3.Int(fresh_name(name + '_uid'))),
            'pp_desc': SV(z3.String(fresh_name(name + '_pp_desc'))), 'desc': SV(z3.String(fresh_name(name + '_desc'))),
            'parse_complete': SV(z3.Bool(fresh_name(name + '_parsed'))), 'lots': [], 'qqs': [],
            'vflag': SV(z3.Bool(fresh_name(name + '_vflag'))),
        }, tag=name)


class ContainerT(T):
    """TractList / TRSList holding k distinct elements"""

    def __init__(self, kind, k, repeat=False):
        self.kind, self.k, self.repeat = kind, k, repeat

    def make(self, ip, name):
        from pytrs.parser.containers.containers import TractList, TRSList
        if self.kind == 'TRS':
            elems = []
            for i in range(self.k):
                e = TRST().make(ip, f'{name}{i}')
                e.fields['vflag'] = SV(z3.Bool(fresh_name(f'{name}{i}_vflag')))
                elems.append(e)
            if self.repeat and self.k >= 2:
                elems[-1] = elems[0]
            return Obj(TRSList, {'_elements': elems}, tag=name)
        elems = [TractT().make(ip, f'{name}{i}') for i in range(self.k)]
        if self.repeat and self.k >= 2:
            elems[-1] = elems[0]          # the same instance twice
        return Obj(TractList, {'_elements': elems}, tag=name)


def to_obj(x, depth=0):
    """convert a natively built repo object into an interpreted Obj (fields copied; nested repo objects converted)"""
    mod = getattr(type(x), '__module__', '') or ''
    if mod.startswith('pytrs') and not isinstance(x, type) and hasattr(x, '__dict__') and depth < 6:
        return Obj(type(x), {k: to_obj(v, depth + 1) for k, v in vars(x).items()}, tag=type(x).__name__)
    if isinstance(x, list):
        return [to_obj(v, depth + 1) for v in x]
    if isinstance(x, dict):
        return {k: to_obj(v, depth + 1) for k, v in x.items()}
    return x


class Native(T):
    """an object built natively by `factory()` (real constructor, concrete arguments), then selected fields replaced by
    symbolic shapes: overrides = {'field' or 'field.sub': shape}"""

    def __init__(self, factory, **overrides):
        self.factory = factory
        self.overrides = overrides

    def make(self, ip, name):
        o = to_obj(self.factory())
        for path, shape in self.overrides.items():
            tgt = o
            parts = path.split('__DOT__')
            for p in parts[:-1]:
                tgt = tgt.fields[p]
            tgt.fields[parts[-1]] = shape.make(ip, f"{name}_{parts[-1]}") if isinstance(shape, T) else shape
        return o
