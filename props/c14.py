"""C14 — re-parsing is idempotent and commit=False has no side effects.

Functions under contract: Tract.parse, Tract.preprocess, TractParser.__init__ (flag inheritance), PLSSDesc.parse,
PLSSDesc.preprocess, PLSSDesc.parse_tracts, TractList.parse_tracts.
"""
from pyvc.api import Unit, Int, Bool, Str, Opt, OneOf, Const, Choice, ObjT, Contract, FixedList
from pyvc.spec import implies, iff, in_re
from props.shapes import Native

ASSUMPTIONS = [
    "C14: the text-level work of a parse (TractParser.parse, TractPreprocessor, PLSSParser) is abstracted by callee contracts "
    "'a deterministic function of text and settings that appends its own flags'; the commit / inheritance logic around it is "
    "the code that is verified",
]

TRACT_STATE = ('lots', 'qqs', 'lot_acres', 'aliquots_whole', 'w_flags', 'w_flag_lines', 'e_flags', 'e_flag_lines', 'pp_desc',
               'parse_complete', 'desc', 'clean_qq', 'suppress_lot_divs', 'qq_depth', 'qq_depth_min', 'qq_depth_max', 'break_halves')


# ---- callee contracts ---------------------------------------------------------------------------------------------------------

def _g(name, *args):
    """uninterpreted result of the text-level parse: a function of the text and the settings"""
    import z3
    from pyvc.values import SV, lift
    from pyvc.models import STR
    from pyvc.values import SOpt
    terms = []
    for a in args:
        if a is None:
            terms.append(z3.IntVal(-12345))
        elif isinstance(a, bool):
            terms.append(z3.IntVal(1 if a else 0))
        elif isinstance(a, SOpt):
            terms.append(z3.If(a.n, z3.IntVal(1), z3.IntVal(0)))
            t = a.v.t
            terms.append(z3.If(t, z3.IntVal(1), z3.IntVal(0)) if z3.is_bool(t) else t)
        elif isinstance(a, (SV, int, str)):
            t = lift(a)
            terms.append(z3.If(t, z3.IntVal(1), z3.IntVal(0)) if z3.is_bool(t) else t)
        else:
            terms.append(z3.IntVal(id(a) % 1000003))     # an object: identity
    f = z3.Function(name, *[t.sort() for t in terms], STR)
    return SV(f(*terms))


def _tp_parse_stub(ip, obj, bound):
    pass


def tractparser_parse_model(ip, args, kwargs, node):
    """TractParser.parse (callee contract): sets lots/qqs/lot_acres/aliquots_whole to functions of (text, settings) and appends
    two generated warning flags (functions of the same) to the flag lists it finds -- never touches the parent"""
    self = args[0]
    f = self.fields
    key = (f['orig_text'], f['clean_qq'], f['suppress_lot_divs'], f['qq_depth_min'], f['qq_depth_max'], f['qq_depth'], f['break_halves'])
    for att in ('lots', 'qqs', 'lot_acres', 'aliquots_whole'):
        f[att] = _g('G_' + att, *key)
    for k in (0, 1):
        flag = _g(f'G_wflag{k}', *key)
        f['w_flags'].append(flag)
        f['w_flag_lines'].append((flag, flag))
    ip.ctx.assumed.append('callee-contract:TractParser.parse (deterministic in text and settings; appends its own flags)')
    return None


def preprocessor_model(ip, args, kwargs, node):
    from pyvc.values import Obj
    from pytrs.parser.tract.tract_preprocess import TractPreprocessor
    text = args[0]
    clean_qq = args[1] if len(args) > 1 else kwargs.get('clean_qq', False)
    ip.ctx.assumed.append('callee-contract:TractPreprocessor (text is a function of the input text and clean_qq)')
    return Obj(TractPreprocessor, {'text': _g('G_pp', text, clean_qq), 'orig_text': text})


def _install_stubs(ip, env):
    from pytrs.parser.tract.tract_parse import TractParser
    from pytrs.parser.tract import tract_parse, tract as tract_mod
    from pytrs.parser.tract.tract_preprocess import TractPreprocessor
    from pyvc import models
    models.register_model(TractParser.parse, tractparser_parse_model)
    models.register_model(TractPreprocessor, preprocessor_model)


def _tract(inherited=1):
    import pytrs
    return pytrs.Tract('NE/4', trs='154n97w14')


def _tract_shape(parsed_before=False):
    """a Tract with symbolic description, settings and one flag handed down by a parent description"""
    return Native(_tract, desc=Str(), clean_qq=Bool(), suppress_lot_divs=Bool(), break_halves=Bool(), qq_depth=Opt(Int()),
                  qq_depth_min=Int(), qq_depth_max=Opt(Int()), w_flags=FixedList(Str()), w_flag_lines=FixedList(Str()),
                  e_flags=FixedList(Str()), e_flag_lines=FixedList(Str()))


def state_of(t):
    return [getattr(t, a) for a in TRACT_STATE]


def parse_once(t):
    t.parse()
    return state_of(t)


def parse_twice(t):
    t.parse()
    s1 = state_of(t)
    t.parse()
    return (s1, state_of(t))


def parse_uncommitted_then_state(t, clean_qq, qq_depth):
    before = state_of(t)
    r = t.parse(commit=False, clean_qq=clean_qq, qq_depth=qq_depth)
    return (before, state_of(t), r)


def preprocess_uncommitted(t, clean_qq):
    before = state_of(t)
    r = t.preprocess(clean_qq=clean_qq, commit=False)
    return (before, state_of(t), r)


def no_field_written(effects, obj):
    return all([not (e[0] == 'field' and e[1] is obj) for e in effects])


def _tract_units():
    return [
        Unit(name='C14/Tract.parse[commit=False leaves the tract unchanged]', prop='C14',
             target='props.c14:parse_uncommitted_then_state',
             params={'t': _tract_shape(), 'clean_qq': Opt(Bool()), 'qq_depth': Opt(Int())}, setup_params=_install_stubs,
             ensures=[('state_unchanged', lambda result: result[0] == result[1]),
                      ('no_store_to_self', lambda t, effects: no_field_written(effects, t))]),
        Unit(name='C14/Tract.preprocess[commit=False leaves the tract unchanged]', prop='C14',
             target='props.c14:preprocess_uncommitted',
             params={'t': _tract_shape(), 'clean_qq': Opt(Bool())}, setup_params=_install_stubs,
             ensures=[('state_unchanged', lambda result: result[0] == result[1]),
                      ('no_store_to_self', lambda t, effects: no_field_written(effects, t))]),
        Unit(name='C14/Tract.parse[twice == once]', prop='C14', target='props.c14:parse_twice',
             params={'t': _tract_shape()}, setup_params=_install_stubs,
             ensures=[('idempotent', lambda result: result[0] == result[1]),
                      ('flags_paired', lambda t: len(t.w_flags) == len(t.w_flag_lines) and len(t.e_flags) == len(t.e_flag_lines)),
                      ('inherited_flag_kept_once', lambda t, old_t:
                          sum([1 for f in t.w_flags if f == old_t.w_flags[0]]) >= 1 and len(t.w_flags) == 3)]),
    ]


# ---- PLSSDesc ---------------------------------------------------------------------------------------------------------------

DESC_STATE = ('tracts', 'w_flags', 'w_flag_lines', 'e_flags', 'e_flag_lines', 'current_layout', 'pp_desc', 'orig_desc', 'layout',
              'default_ns', 'default_ew', 'parse_qq', 'clean_qq', 'segment', 'sec_within', 'ocr_scrub', 'sec_colon_required',
              'sec_colon_cautious', 'qq_depth', 'qq_depth_min', 'qq_depth_max', 'break_halves', 'source')
CONFIG_ATTS = ('default_ns', 'default_ew', 'layout', 'wait_to_parse', 'parse_qq', 'clean_qq', 'sec_colon_required',
               'sec_colon_cautious', 'suppress_lot_divs', 'ocr_scrub', 'segment', 'qq_depth', 'qq_depth_min', 'qq_depth_max',
               'break_halves', 'sec_within')


def _plssparser_init(ip, obj, bound):
    """PLSSParser(...) (callee contract): results are deterministic functions of its arguments; it receives no reference to
    the PLSSDesc (checked: no argument is the description object)"""
    args = [bound[k] for k in sorted(bound) if k != 'self']
    obj.fields.update({
        'tracts': _g('G_tracts', *args), 'w_flags': [_g('G_dw', *args)], 'w_flag_lines': [(_g('G_dw', *args), _g('G_dwl', *args))],
        'e_flags': [_g('G_de', *args)], 'e_flag_lines': [(_g('G_de', *args), _g('G_del', *args))],
        'layout': _g('G_layout', *args), 'text': _g('G_text', *args)})
    obj.fields['args'] = dict(bound)


PLSSPARSER = Contract('PLSSParser.__init__', name='PLSSParser.__init__ (deterministic function of its arguments)')
PLSSPARSER.init_fields = _plssparser_init


def plss_preprocessor_model(ip, args, kwargs, node):
    from pyvc.values import Obj
    from pytrs.parser.plssdesc.plss_preprocess import PLSSPreprocessor
    ip.ctx.assumed.append('callee-contract:PLSSPreprocessor (text is a function of its arguments)')
    return Obj(PLSSPreprocessor, {'text': _g('G_plss_pp', *args), 'fixed_twprges': []})


def _install_plss_stubs(ip, env):
    from pytrs.parser.plssdesc.plss_preprocess import PLSSPreprocessor
    from pyvc import models
    models.register_model(PLSSPreprocessor, plss_preprocessor_model)
    _install_stubs(ip, env)


def _plssdesc():
    import pytrs
    return pytrs.PLSSDesc('T154N-R97W Sec 14: NE/4', wait_to_parse=True)


def _desc_shape():
    return Native(_plssdesc, orig_desc=Str(), clean_qq=Bool(), parse_qq=Bool(), segment=Bool(), sec_within=Bool(), ocr_scrub=Bool(),
                  qq_depth=Opt(Int()), qq_depth_min=Int(), qq_depth_max=Opt(Int()), break_halves=Bool(),
                  layout=Opt(OneOf('TRS_desc', 'copy_all')), default_ns=Opt(OneOf('n', 's')))


def desc_state(d):
    return [getattr(d, a) for a in DESC_STATE] + [getattr(d.config, a) for a in CONFIG_ATTS]


def desc_parse_uncommitted(d, clean_qq, qq_depth_min, layout):
    before = desc_state(d)
    d.parse(commit=False, clean_qq=clean_qq, qq_depth_min=qq_depth_min, layout=layout)
    return (before, desc_state(d))


def desc_parse_twice(d):
    d.parse()
    s1 = desc_state(d)
    d.parse()
    return (s1, desc_state(d))


def desc_parse_override_then_plain(d, clean_qq, qq_depth_min):
    """a keyword override must not leak into a later plain parse"""
    d.parse()
    s1 = desc_state(d)
    d.parse(commit=False, clean_qq=clean_qq, qq_depth_min=qq_depth_min)
    d.parse()
    return (s1, desc_state(d))


def desc_preprocess_uncommitted(d, ocr_scrub):
    before = desc_state(d)
    d.preprocess(commit=False, ocr_scrub=ocr_scrub)
    return (before, desc_state(d))


def _desc_units():
    return [
        Unit(name='C14/PLSSDesc.parse[commit=False leaves the description unchanged]', prop='C14',
             target='props.c14:desc_parse_uncommitted',
             params={'d': _desc_shape(), 'clean_qq': Opt(Bool()), 'qq_depth_min': Opt(Int()), 'layout': Opt(OneOf('TRS_desc', 'copy_all'))},
             uses=[PLSSPARSER], setup_params=_install_plss_stubs,
             ensures=[('state_unchanged', lambda result: result[0] == result[1]),
                      ('no_store_to_self', lambda d, effects: no_field_written(effects, d) and no_field_written(effects, d.config))]),
        Unit(name='C14/PLSSDesc.parse[twice == once]', prop='C14', target='props.c14:desc_parse_twice',
             params={'d': _desc_shape()}, uses=[PLSSPARSER], setup_params=_install_plss_stubs,
             ensures=[('idempotent', lambda result: result[0] == result[1]),
                      ('results_replaced_not_extended', lambda d: len(d.w_flags) == 1 and len(d.e_flags) == 1
                       and len(d.w_flag_lines) == 1 and len(d.e_flag_lines) == 1)]),
        Unit(name='C14/PLSSDesc.parse[override does not leak into later parses]', prop='C14',
             target='props.c14:desc_parse_override_then_plain',
             params={'d': _desc_shape(), 'clean_qq': Opt(Bool()), 'qq_depth_min': Opt(Int())},
             uses=[PLSSPARSER], setup_params=_install_plss_stubs,
             ensures=[('same_as_before_the_override', lambda result: result[0] == result[1])]),
        Unit(name='C14/PLSSDesc.preprocess[commit=False leaves the description unchanged]', prop='C14',
             target='props.c14:desc_preprocess_uncommitted',
             params={'d': _desc_shape(), 'ocr_scrub': Opt(Bool())}, setup_params=_install_plss_stubs,
             ensures=[('state_unchanged', lambda result: result[0] == result[1]),
                      ('no_store_to_self', lambda d, effects: no_field_written(effects, d))]),
    ]


def tl_parse_twice(t1, t2, qq_depth, clean_qq):
    from pytrs import TractList
    tl = TractList([t1, t2])
    tl.parse_tracts(qq_depth=qq_depth, clean_qq=clean_qq)
    s1 = (state_of(t1), state_of(t2))
    tl.parse_tracts(qq_depth=qq_depth, clean_qq=clean_qq)
    return (s1, (state_of(t1), state_of(t2)), [x for x in tl])


def desc_parse_tracts_twice(d, t1, qq_depth_min):
    from pytrs import TractList
    d.tracts = TractList([t1])
    d.parse_tracts(qq_depth_min=qq_depth_min)
    s1 = (state_of(t1), desc_state(d))
    d.parse_tracts(qq_depth_min=qq_depth_min)
    return (s1, (state_of(t1), desc_state(d)))


def _list_units():
    return [
        Unit(name='C14/TractList.parse_tracts[twice == once]', prop='C14', target='props.c14:tl_parse_twice',
             params={'t1': _tract_shape(), 't2': _tract_shape(), 'qq_depth': Opt(Int()), 'clean_qq': Opt(Bool())},
             setup_params=_install_stubs,
             ensures=[('idempotent', lambda result: result[0] == result[1]),
                      ('same_tracts_in_place', lambda t1, t2, result: len(result[2]) == 2 and result[2][0] is t1 and result[2][1] is t2)]),
        Unit(name='C14/PLSSDesc.parse_tracts[twice == once]', prop='C14', target='props.c14:desc_parse_tracts_twice',
             params={'d': _desc_shape(), 't1': _tract_shape(), 'qq_depth_min': Opt(Int())}, setup_params=_install_plss_stubs,
             ensures=[('idempotent', lambda result: result[0] == result[1])]),
    ]


def units():
    from pyvc.api import borrow
    from props import c15
    # the text-level parsers are abstracted as deterministic functions of text and settings: the package-wide frame 'no store to
    # process-wide state outside the documented ones' (C15's scan) is what that abstraction rests on, so it is discharged here too
    return _tract_units() + _desc_units() + _list_units() + borrow([c15._scan_unit()], 'C14')


# ======================================================================================================================
# bounded stand-in: operation sequences compared with a fresh object
# ======================================================================================================================
def _tract_obs(t):
    return {a: (list(getattr(t, a)) if isinstance(getattr(t, a), list) else (dict(getattr(t, a)) if isinstance(getattr(t, a), dict) else getattr(t, a)))
            for a in ('trs', 'desc', 'pp_desc', 'lots', 'qqs', 'lot_acres', 'aliquots_whole', 'w_flags', 'w_flag_lines', 'e_flags',
                      'e_flag_lines', 'parse_complete', 'clean_qq', 'qq_depth', 'qq_depth_min', 'qq_depth_max', 'break_halves')}


def _desc_obs(d):
    return {'tracts': [_tract_obs(t) for t in d.tracts], 'w_flags': list(d.w_flags), 'w_flag_lines': list(d.w_flag_lines),
            'e_flags': list(d.e_flags), 'e_flag_lines': list(d.e_flag_lines), 'pp_desc': d.pp_desc, 'config': str(d.config),
            'clean_qq': d.clean_qq, 'qq_depth_min': d.qq_depth_min, 'layout': d.layout}


def _bounded_sequences(tier, seed):
    import itertools
    import random
    import pytrs
    rng = random.Random(seed)
    texts = ['T154-R97 Sec 14: Lot 1, Lot 1, NE/4, NE/4 less and except the wellbore',
             'T154N-R97W Sec 14: NE, N/2SW/4, Sec 15: Lots 1 - 3(40.01), Lot 3, foo bar T155N-R97W',
             'NE/4 of Section 14, T154N-R97W, insofar as it covers the N/2 of Section 15, T154N-R97W',
             'no twprge here at all, Lot 2, Lot 2']
    configs = ['parse_qq', 'parse_qq,clean_qq', 'parse_qq,qq_depth.1,segment', '']
    ops = [
        ('parse()', lambda d: d.parse()),
        ('parse(commit=False, clean_qq=True, qq_depth_min=3)', lambda d: d.parse(commit=False, clean_qq=True, qq_depth_min=3)),
        ('parse(commit=False, layout=copy_all)', lambda d: d.parse(commit=False, layout='copy_all')),
        ('parse_tracts()', lambda d: d.parse_tracts()),
        ('preprocess()', lambda d: d.preprocess()),
        ('preprocess(commit=True)', lambda d: d.preprocess(commit=True)),
        ('tracts.sort+filter', lambda d: (d.tracts.custom_sort('s.rev'), d.tracts.custom_sort('i'), d.tracts.filter(lambda t: True))),
        ('tract.parse(commit=False, qq_depth=1)', lambda d: [t.parse(commit=False, qq_depth=1) for t in d.tracts]),
        ('tract.preprocess(clean_qq=True)', lambda d: [t.preprocess(clean_qq=True) for t in d.tracts]),
    ]
    neutral_len = 3 if tier == 'quick' else 4
    seqs = [s for n in range(1, neutral_len + 1) for s in itertools.product(range(len(ops)), repeat=n)]
    rng.shuffle(seqs)
    seqs = seqs[:250 if tier == 'quick' else 2500]
    ev = 0
    distinct = set()
    violations = []
    samples = []
    for text in texts:
        for cfg in configs:
            try:
                fresh = _desc_obs(pytrs.PLSSDesc(text, config=cfg))
            except Exception:
                continue        # totality belongs to C03
            for sq in seqs:
                d = pytrs.PLSSDesc(text, config=cfg)
                try:
                    for k in sq:
                        ops[k][1](d)
                except Exception as e:
                    continue
                ev += 1
                distinct.add((text, cfg, sq))
                got = _desc_obs(d)
                # a sequence containing parse_tracts()/parse() on an unparsed config legitimately parses the tracts
                want = fresh
                if 'parse_qq' not in cfg and 3 in sq:
                    last_full = max([i for i, k in enumerate(sq) if k == 0] + [-1])
                    if any(k == 3 for k in sq[last_full + 1:]):
                        d2 = pytrs.PLSSDesc(text, config=cfg)
                        d2.parse_tracts()
                        want = _desc_obs(d2)
                if got != want and len(violations) < 10:
                    diff = [k for k in got if got[k] != want[k]]
                    violations.append({'input': {'text': text, 'config': cfg, 'ops': [ops[k][0] for k in sq]},
                                       'observed': {k: str(got[k])[:200] for k in diff[:2]}, 'expected': {k: str(want[k])[:200] for k in diff[:2]},
                                       'replay_spec': None})
            if len(samples) < 2:
                samples.append({'text': text[:40], 'config': cfg, 'ops': [ops[k][0] for k in seqs[0]]})
    # Tract on its own
    for ttext in ('Lot 1, Lot 1, NE/4, NE/4', 'N/2 of Lots 2 - 4(39.9), NE', 'ALL'):
        for cfg in ('', 'clean_qq', 'qq_depth.1'):
            fresh = _tract_obs(pytrs.Tract(ttext, trs='154n97w14', config=cfg, parse_qq=True))
            for sq in itertools.product(range(4), repeat=3):
                t = pytrs.Tract(ttext, trs='154n97w14', config=cfg, parse_qq=True)
                for k in sq:
                    [lambda: t.parse(), lambda: t.parse(commit=False, clean_qq=True, qq_depth=3), lambda: t.preprocess(clean_qq=True),
                     lambda: t.preprocess(commit=True)][k]()
                ev += 1
                distinct.add(('tract', ttext, cfg, sq))
                if _tract_obs(t) != fresh and len(violations) < 10:
                    got = _tract_obs(t)
                    diff = [k for k in got if got[k] != fresh[k]]
                    violations.append({'input': {'tract': ttext, 'config': cfg, 'ops': list(sq)},
                                       'observed': {k: str(got[k])[:200] for k in diff[:2]}, 'expected': {k: str(fresh[k])[:200] for k in diff[:2]},
                                       'replay_spec': None})
    return {'evaluations': ev, 'distinct_nontrivial': len(distinct), 'violations': violations, 'samples': samples, 'exhaustive': False,
            'bound': f"{len(seqs)} operation sequences of length <= {neutral_len} over {len(ops)} operations x {len(texts)} texts x "
                     f"{len(configs)} configs; all 64 sequences of 4 Tract operations x 3 texts x 3 configs",
            'rule': "state after a sequence of re-parses / uncommitted parses / preprocess / sort / filter equals the state of a "
                    "freshly constructed object; non-trivial = distinct (text, config, sequence)"}


def bounded(tier, seed):
    return [{'name': 'C14-bounded-operation-sequences', 'run': lambda: _bounded_sequences(tier, seed)}]


def _old():
    pass
