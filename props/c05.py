"""C05 — elided lists of sections and lots expand to exactly the numbers they denote.

Functions under contract: SecUnpacker.unpack_sections, LotUnpacker.unpack_lots, get_rightmost, is_multi, thru_rightmost,
start_of_rightmost (all executed from the real source) over the *item abstraction* of the regex call
multisec_regex.search(txt, endpos=...) / multilot_regex.search(...): the text is the rendering of a ghost item list and the
search under `endpos` cut before item j reports item j-1 as its rightmost number (abstraction contract ABS-multisec-endpos,
ABS-multilot-endpos; assumed here, exercised against the real regexes by the bounded tier).
"""
from pyvc.api import Unit, Int, Bool, Str, Opt, OneOf, Const, Choice, ObjT, Contract, FixedList
from pyvc.spec import implies, iff, in_re

MOD = 'pytrs.parser.unpack.unpackers'
ASSUMPTIONS = [
    "ABS-multisec-endpos / ABS-multilot-endpos: on the rendering of an item list, search(txt, endpos) reports the item before the "
    "cut as rightmost number, whether it was joined by a through-word, and where its connective starts (bounded-checked)",
    "C05 bounds in the proved part: lists of 1..3 items, every range spans at most 4 numbers (numbers themselves are symbolic)",
]


# ---- the item abstraction --------------------------------------------------------------------------------------------------------
class AbsMatch:
    """match object of multisec_regex / multilot_regex on the rendering of `items`, cut before item j"""
    _pyvc_sym = True

    def __init__(self, kind, items, thru, j, word_rightmost, acreage):
        self.kind, self.items, self.thru, self.j = kind, items, thru, j
        self.word_rightmost = word_rightmost
        self.acreage = acreage
        self.string = 'abstract'

    def groupdict(self):
        d = {'intervener': None, self.kind + 'num': None, self.kind + 'num_rightmost': None}
        return d

    def __getitem__(self, name):
        return self.group(name)

    def group(self, name):
        j = self.j
        if name == self.kind + 'num':
            return str(self.items[0])
        if name == self.kind + 'num_rightmost':
            return str(self.items[j - 1]) if j - 1 >= 1 else None
        if name == 'intervener':
            if j - 1 >= 1:
                return ' through ' if self.thru[j - 2] else ', '
            return None
        if name == 'word_lot_rightmost':
            return 'Lot' if (j - 1 >= 1 and self.word_rightmost[j - 2]) else None
        if name == 'acreage':
            return None
        return None

    def start(self, name=0):
        # positions are item indices: the connective before item j-1 starts at abstract position j-1
        if name == 'intervener':
            return self.j - 1
        return 0

    def end(self, name=0):
        return self.j


class AbsPattern:
    _pyvc_sym = True

    def __init__(self, kind, items, thru, word_rightmost=None, acreage=None):
        self.kind, self.items, self.thru = kind, items, thru
        self.word_rightmost = word_rightmost or [False] * len(thru)
        self.acreage = acreage

    def search(self, txt, endpos=None):
        # len(txt) is the abstract length = number of items
        if endpos is None or endpos > len(self.items):
            endpos = len(self.items)
        if endpos <= 0:
            return None
        return AbsMatch(self.kind, self.items, self.thru, endpos, self.word_rightmost, self.acreage)


class AbsText:
    """the text argument: only its length is used by the unpack loops (as the initial endpos)"""
    _pyvc_sym = True

    def __init__(self, n):
        self.n = n

    def __len__(self):
        return self.n


def _setup(kind):
    def setup(ip, env):
        from pytrs.parser.unpack import unpackers
        from pyvc import models
        pat = AbsPattern(kind, env['items'], env['thru'], env.get('word_rightmost'))
        ip.overlay[(id(unpackers.__dict__), 'multisec_regex' if kind == 'sec' else 'multilot_regex')] = pat
        if kind == 'lot':
            models.register_model(unpackers.get_rightmost_acreage, lambda ip_, a, k, n: None)
        ip.ctx.assumed.append(f'abstraction:ABS-multi{kind}-endpos')
    return setup


def expand_items(items, thru):
    """the numbers an item list denotes: item n joined to item n-1 by a through-word closes a range"""
    out = []
    n = 0
    while n < len(items):
        if n + 1 < len(items) and thru[n]:
            a = items[n]
            b = items[n + 1]
            if a <= b:
                out = out + [x for x in range(a, b + 1)]
            else:
                out = out + [x for x in range(a, b - 1, -1)]
            n = n + 2
        else:
            out = out + [items[n]]
            n = n + 1
    return out


def has_descending(items, thru):
    return any([thru[n] and items[n] > items[n + 1] for n in range(len(thru))])


def all_ascending(items, thru):
    return all([(not thru[n]) or items[n] < items[n + 1] for n in range(len(thru))])


def no_chained_through(thru):
    """'1 through 3 through 5' is not a list the statement talks about"""
    return all([not (thru[n] and thru[n + 1]) for n in range(len(thru) - 1)])


def unpack_secs(n_items):
    from pytrs.parser.unpack.unpackers import SecUnpacker
    u = SecUnpacker(AbsText(n_items))
    return (u.sec_list, u.flags, u.flag_lines)


def unpack_lots(n_items):
    from pytrs.parser.unpack.unpackers import LotUnpacker
    u = LotUnpacker(AbsText(n_items))
    return (u.lot_list, u.flags, u.flag_lines, u.aliquots_through)


def _combos(k):
    import itertools
    return [list(c) for c in itertools.product([False, True], repeat=k - 1) if no_chained_through(list(c))]


def _sec_unit(k, thru):
    return Unit(
        name=f'C05/SecUnpacker.unpack_sections[{k} items, through={thru}]', prop='C05', target='props.c05:unpack_secs',
        params={'n_items': Const(k)},
        ghost={'items': FixedList(*[Int(0, 99) for _ in range(k)]), 'thru': Const(thru)},
        requires=lambda items, thru: all([(not thru[n]) or (items[n] - items[n + 1] <= 3 and items[n + 1] - items[n] <= 3)
                                          for n in range(len(thru))]),
        setup_params=_setup('sec'), hooks={'max_range': 4},
        ensures=[
            ('expands_to_the_denoted_sequence', lambda items, thru, result:
                result[0] == [str(x).rjust(2, '0') for x in expand_items(items, thru)]),
            ('descending_range_is_flagged', lambda items, thru, result:
                implies(has_descending(items, thru), 'nonsequential_sections' in result[1])
                and implies(all_ascending(items, thru), len(result[1]) == 0)
                and len(result[1]) == len(result[2])),
        ])


def _lot_unit(k, thru):
    return Unit(
        name=f'C05/LotUnpacker.unpack_lots[{k} items, through={thru}]', prop='C05', target='props.c05:unpack_lots',
        params={'n_items': Const(k)},
        ghost={'items': FixedList(*[Int(0, 999) for _ in range(k)]), 'thru': Const(thru)},
        requires=lambda items, thru: all([(not thru[n]) or (items[n] - items[n + 1] <= 3 and items[n + 1] - items[n] <= 3)
                                          for n in range(len(thru))]),
        setup_params=_setup('lot'), hooks={'max_range': 4},
        ensures=[
            ('expands_to_the_denoted_sequence', lambda items, thru, result:
                result[0] == ['L' + str(x) for x in expand_items(items, thru)]),
            ('descending_range_is_flagged', lambda items, thru, result:
                implies(has_descending(items, thru), 'nonsequential_lots' in result[1])
                and implies(all_ascending(items, thru), len(result[1]) == 0)
                and len(result[1]) == len(result[2])),
        ])


def units():
    us = []
    for k in (1, 2, 3):
        for thru in _combos(k):
            us.append(_sec_unit(k, thru))
            us.append(_lot_unit(k, thru))
    return us


# ======================================================================================================================
# bounded stand-in: the abstraction contract against the real regexes, and the statement end to end
# ======================================================================================================================
THROUGH = [' - ', '-', ' through ', ' thru ', ' to ', ' – ', ' THROUGH ', ' Thru ']
ANDS = [', ', ' and ', ' & ', ', and ', ' AND ']


def _render_list(items, thru, word, through, conj, repeat_word, zero_pad=False):
    parts = []
    for n, x in enumerate(items):
        s = f"{x:02d}" if zero_pad else str(x)
        if n == 0:
            parts.append(f"{word} {s}")
        else:
            joiner = through if thru[n - 1] else conj
            parts.append(joiner + ((word.rstrip('s') + ' ') if repeat_word and not thru[n - 1] else '') + s)
    return ''.join(parts)


def _bounded_lists(tier, seed):
    import itertools
    import random
    import warnings
    import pytrs
    from pytrs.parser.rgxlib import multisec_regex, multilot_regex
    from pytrs.parser.unpack.unpackers import (is_multi_sec, get_rightmost_sec, thru_rightmost, start_of_rightmost,
                                               get_rightmost_lot, is_multi_lot)
    warnings.simplefilter('ignore')
    rng = random.Random(seed)
    ev = 0
    distinct = set()
    violations = []
    samples = []

    def bad(inp, obs, exp):
        if len(violations) < 10:
            violations.append({'input': inp, 'observed': obs, 'expected': exp, 'replay_spec': None})
    sec_nums = [1, 2, 9, 10, 11, 35, 36]
    lot_nums = [1, 2, 9, 10, 12, 99, 100]
    shapes = []
    for k in (1, 2, 3, 4):
        for thru in itertools.product([False, True], repeat=k - 1):
            if no_chained_through(list(thru)):
                shapes.append((k, list(thru)))
    n_per_shape = 40 if tier == 'quick' else 400
    for kind, nums, words in (('sec', sec_nums, ['Sec', 'Section', 'Sections', 'Secs', 'Sec.', 'sections', '§']),
                              ('lot', lot_nums, ['Lot', 'Lots', 'lot', 'LOTS', 'L'])):
        for k, thru in shapes:
            for _ in range(n_per_shape):
                items = []
                for n in range(k):
                    if n > 0 and thru[n - 1]:
                        items.append(max(1, items[-1] + rng.choice([-3, -2, -1, 1, 2, 3])))
                    else:
                        items.append(rng.choice(nums))
                if any(thru[n] and items[n] == items[n + 1] for n in range(k - 1)):
                    continue
                word = rng.choice(words)
                through, conj = rng.choice(THROUGH), rng.choice(ANDS)
                rep = rng.random() < 0.25
                txt = _render_list(items, thru, word, through, conj, rep, zero_pad=(kind == 'sec' and rng.random() < 0.2))
                distinct.add((kind, txt))
                want = expand_items(items, thru)
                # (a) the abstraction contract, step by step, on the real regex
                rgx = multisec_regex if kind == 'sec' else multilot_regex
                endpos = len(txt)
                j = k
                ok = True
                while True:
                    mo = rgx.search(txt, endpos=endpos)
                    ev += 1
                    if j == 0:
                        ok = ok and mo is None
                        break
                    if mo is None:
                        ok = False
                        break
                    right = get_rightmost_sec(mo) if kind == 'sec' else get_rightmost_lot(mo)
                    multi = is_multi_sec(mo) if kind == 'sec' else is_multi_lot(mo)
                    if int(right) != items[j - 1] or multi != (j - 1 >= 1) or (j - 1 >= 1 and thru_rightmost(mo) != thru[j - 2]):
                        ok = False
                        break
                    if not multi:
                        endpos = 0
                        j = 0
                    else:
                        endpos = start_of_rightmost(mo)
                        j -= 1
                if not ok:
                    bad({'kind': kind, 'text': txt, 'check': 'ABS-multi%s-endpos' % kind}, 'real search deviates from the item view at cut %d' % j, 'item view')
                # (b) end to end
                if kind == 'sec':
                    got = pytrs.find_sec(txt)
                    exp = [f"{x:02d}" for x in want]
                    ev += 1
                    if got != exp:
                        bad({'fn': 'find_sec', 'text': txt}, got, exp)
                    d = pytrs.PLSSDesc(f"T154N-R97W {txt}: NE/4")
                    ev += 1
                    if [t.trs for t in d.tracts] != ['154n97w' + s for s in exp] or any(t.desc != 'NE/4' for t in d.tracts):
                        bad({'fn': 'PLSSDesc', 'text': f"T154N-R97W {txt}: NE/4"}, [t.trs for t in d.tracts], exp)
                    desc_flag = any(f.startswith('nonsequential') for f in d.w_flags)
                    if has_descending(items, thru) and not desc_flag:
                        bad({'fn': 'PLSSDesc', 'text': txt}, d.w_flags, 'nonsequential warning')
                    if all_ascending(items, thru) and desc_flag:
                        bad({'fn': 'PLSSDesc', 'text': txt}, d.w_flags, 'no nonsequential warning')
                else:
                    t = pytrs.Tract(txt, trs='154n97w14', parse_qq=True)
                    exp = [f"L{x}" for x in want]
                    ev += 1
                    if t.lots != exp or t.ilots != want:
                        bad({'fn': 'Tract', 'text': txt}, [t.lots, t.ilots], [exp, want])
                    desc_flag = any(f.startswith('nonsequential') for f in t.w_flags)
                    if (has_descending(items, thru) and not desc_flag) or (all_ascending(items, thru) and desc_flag):
                        bad({'fn': 'Tract', 'text': txt}, t.w_flags, 'nonsequential warning iff a descending range')
                if len(samples) < 4 and k == 3:
                    samples.append({'text': txt, 'denotes': want})
    return {'evaluations': ev, 'distinct_nontrivial': len(distinct), 'violations': violations, 'samples': samples, 'exhaustive': False,
            'bound': f"item lists of <= 4 items (every through/and pattern) x {n_per_shape} random draws of numbers, connective spellings, "
                     "keyword forms, repeated keyword; sections and lots",
            'rule': "(a) the item-view abstraction contract on the real regex at every cut; (b) find_sec / PLSSDesc / Tract vs the "
                    "expansion oracle; non-trivial = distinct rendered list"}


def bounded(tier, seed):
    return [{'name': 'C05-bounded-lists', 'run': lambda: _bounded_lists(tier, seed)}]
