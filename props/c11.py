"""C11 — copy_all, forced or as fallback, keeps the whole text in exactly one tract.

Functions under contract: PLSSDesc.__init__ / config setter / parse (layout hand-over, proved in props/c13.py and here),
PLSSParser.__init__ / parse / construct_tracts / check_error_tracts, ChunkParser.parse_safe / parse_chunk / _parse_copyall /
get_next_sec / get_next_twprge / _stage_new_tract.  The regex layer (finders, preprocessors) is an abstraction contract.
"""
from pyvc.api import Unit, Int, Bool, Str, Opt, OneOf, Const, Choice, ObjT, Contract, FixedList
from pyvc.spec import implies, iff, in_re
from props.shapes import Native
from props import plss_stubs

ASSUMPTIONS = [
    "C11: abstraction contracts for TwpRgeFinder / SecFinder (ghost match lists with 0..2 matches each), PLSSPreprocessor, "
    "TractPreprocessor, deduce_layout; gen_flags_chunk not executed",
]
TWP_MATCHES = (Const([]), Const([('TWPRGE', '154n97w', 0, 10)]), Const([('TWPRGE', '154n97w', 0, 10), ('TWPRGE', '155n97w', 30, 40)]))
SEC_MATCHES = (Const([]), Const([('SEC', ['14'], 11, 17)]), Const([('SEC', ['14', '15'], 11, 17), ('SEC', ['16'], 20, 26)]))


def _setup(ip, env):
    # the preprocessed text is an uninterpreted function of the original one; it is at least as long as the last ghost match span
    span_end = max([m[3] for m in list(env['twprge_matches']) + list(env['sec_matches'])] + [0])
    plss_stubs.install(ip, twprge_matches=env['twprge_matches'], sec_matches=env['sec_matches'],
                       layout_oracle=env.get('deduced'), pp_identity=False, pp_len_min=span_end + 5 if span_end else 0)


def make_parser(text, layout, segment, sec_within, parse_qq, clean_up):
    from pytrs.parser.plssdesc.plss_parse import PLSSParser
    return PLSSParser(text, layout=layout, segment=segment, sec_within=sec_within, parse_qq=parse_qq, clean_up=clean_up,
                      handed_down_config='')


def one_whole_text_tract(p, twprge_matches, sec_matches, text, hooks_):
    # the description is the entire *preprocessed* text (what the PLSSPreprocessor abstraction returned for `text`), the original
    # text is recorded next to it
    ts = p.tracts._elements
    found_both = len(twprge_matches) > 0 and len(sec_matches) > 0
    return (len(ts) == 1
            and len(hooks_[('pp_text',)]) == 1
            and ts[0].desc == hooks_[('pp_text',)][0]
            and ts[0].orig_desc == text
            and implies(not found_both, len(p.e_flags) >= 1 and len(ts[0].e_flags) >= 1)
            and len(p.e_flags) == len(p.e_flag_lines) and len(p.w_flags) == len(p.w_flag_lines)
            and ts[0].trs == (twprge_matches[0][1] if len(twprge_matches) > 0 else 'XXXzXXXz')
            + (sec_matches[0][1][0] if len(sec_matches) > 0 else 'XX'))


def _forced_unit():
    return Unit(
        name='C11/PLSSParser[layout=copy_all]', prop='C11', target='props.c11:make_parser',
        params={'text': Str(), 'layout': Const('copy_all'), 'segment': Bool(), 'sec_within': Bool(), 'parse_qq': Const(False),
                'clean_up': Choice(Const(None), Const(True))},
        ghost={'twprge_matches': Choice(*TWP_MATCHES), 'sec_matches': Choice(*SEC_MATCHES)},
        setup_params=_setup,
        ensures=[('exactly_one_tract_with_the_whole_text', lambda text, clean_up, twprge_matches, sec_matches, result, hooks_:
                  implies(clean_up is None, one_whole_text_tract(result, twprge_matches, sec_matches, text, hooks_))
                  and len(result.tracts._elements) == 1)])


def _fallback_unit():
    """a deduced layout whose chunk yields no tract (no section matched to a block, or no match at all)"""
    return Unit(
        name='C11/PLSSParser[fallback when no tract can be formed]', prop='C11', target='props.c11:make_parser',
        params={'text': Str(), 'layout': Const(None), 'segment': Const(False), 'sec_within': Bool(), 'parse_qq': Const(False),
                'clean_up': Const(None)},
        ghost={'twprge_matches': Choice(*TWP_MATCHES), 'sec_matches': Const([]),
               'deduced': Choice(Const('TRS_desc'), Const('desc_STR'), Const('S_desc_TR'), Const('TR_desc_S'), Const('copy_all'))},
        setup_params=_setup,
        ensures=[('exactly_one_tract_with_the_whole_text', lambda text, twprge_matches, sec_matches, result, hooks_:
                  one_whole_text_tract(result, twprge_matches, sec_matches, text, hooks_))])


def _setup_with_cleanup(ip, env):
    """as _setup, plus the abstraction contract of cleanup_desc (not reached on the unchanged tree: copy_all skips the clean-up)"""
    from pyvc import models
    from pytrs.parser.plssdesc import plss_parse
    _setup(ip, env)
    models.register_model(plss_parse.cleanup_desc, plss_stubs.cleanup_model)


def _deduced_copy_all_segment_unit():
    """copy_all as the deduced layout under segment: the chunker must not cut the text at the Twp/Rges"""
    return Unit(
        name='C11/PLSSParser[deduced copy_all under segment]', prop='C11', target='props.c11:make_parser',
        params={'text': Str(), 'layout': Const(None), 'segment': Const(True), 'sec_within': Bool(), 'parse_qq': Const(False),
                'clean_up': Const(None)},
        ghost={'twprge_matches': Choice(*TWP_MATCHES), 'sec_matches': Choice(*SEC_MATCHES), 'deduced': Const('copy_all')},
        setup_params=_setup_with_cleanup,
        ensures=[('exactly_one_tract_with_the_whole_text', lambda text, twprge_matches, sec_matches, result, hooks_:
                  one_whole_text_tract(result, twprge_matches, sec_matches, text, hooks_))])


def units():
    return [_forced_unit(), _fallback_unit()]


# ---- hand-over of the layout through PLSSDesc.__init__ ----------------------------------------------------------------------

def _pp_init(ip, obj, bound):
    from pytrs.parser.containers.containers import TractList
    from pyvc.values import Obj
    ip.hooks.setdefault(('plssparser_args',), []).append(dict(bound))
    obj.fields.update({'tracts': Obj(TractList, {'_elements': []}), 'w_flags': [], 'w_flag_lines': [], 'e_flags': [],
                       'e_flag_lines': [], 'layout': bound.get('layout'), 'text': bound.get('text')})


PLSSPARSER_INIT = Contract('PLSSParser.__init__', name='PLSSParser.__init__ (stub: records its arguments)')
PLSSPARSER_INIT.init_fields = _pp_init


def new_desc(text, layout, config):
    from pytrs import PLSSDesc
    return PLSSDesc(text, layout=layout, config=config)


def _init_unit():
    return Unit(
        name='C11/PLSSDesc.__init__[layout hand-over]', prop='C11', target='props.c11:new_desc',
        params={'text': Str(), 'layout': Choice(Const(None), Const('copy_all'), Const('TRS_desc')),
                'config': Choice(Const(None), Const('copy_all'), Const('segment,copy_all,clean_qq'), Const('desc_STR'))},
        uses=[PLSSPARSER_INIT],
        ensures=[('parser_gets_forced_layout', lambda layout, config, hooks_:
                  len(hooks_[('plssparser_args',)]) == 1
                  and hooks_[('plssparser_args',)][0]['layout'] == (layout if layout is not None
                                                                   else (None if config is None else ('desc_STR' if config == 'desc_STR' else 'copy_all')))
                  and implies(hooks_[('plssparser_args',)][0]['layout'] == 'copy_all', hooks_[('plssparser_args',)][0]['segment'] is False))])


def _segment_fallback_unit():
    """segment on, two Twp/Rge chunks, no section accepted in either: every chunk falls back to copy_all *on its own text* -- one
    tract per chunk, each carrying its chunk, so no two tracts (here: none at all) carry the complete text"""
    def post(result, hooks_):
        ts = result.tracts._elements
        whole = hooks_[('pp_text',)][0]
        return (len(ts) == 2
                and sum([1 for t in ts if t.desc == whole]) <= 1
                and all([len(t.desc) < len(whole) for t in ts])
                and len(result.e_flags) >= 1 and len(result.e_flags) == len(result.e_flag_lines))
    return Unit(
        name='C11/PLSSParser[segment: every chunk falls back on its own text]', prop='C11', target='props.c11:make_parser',
        params={'text': Str(), 'layout': Const(None), 'segment': Const(True), 'sec_within': Const(False), 'parse_qq': Const(False),
                'clean_up': Const(None)},
        ghost={'twprge_matches': Const([('TWPRGE', '154n97w', 0, 10), ('TWPRGE', '155n97w', 30, 40)]), 'sec_matches': Const([]),
               'deduced': Choice(Const('TRS_desc'), Const('desc_STR'), Const('S_desc_TR'), Const('TR_desc_S'))},
        setup_params=_setup_with_cleanup,
        ensures=[('no_two_tracts_carry_the_whole_text', post)])


def units():
    return [_forced_unit(), _fallback_unit(), _deduced_copy_all_segment_unit(), _segment_fallback_unit(), _init_unit()]


# ======================================================================================================================
# bounded stand-in
# ======================================================================================================================
def _bounded_copyall(tier, seed):
    import pytrs
    ev = 0
    distinct = set()
    violations = []
    samples = []

    def bad(inp, obs, exp):
        if len(violations) < 10:
            violations.append({'input': inp, 'observed': obs, 'expected': exp, 'replay_spec': None})
    texts = ['T154N-R97W Sec 14: NE/4, Sec 15: W/2', 'NE/4 of Sec 14, T154N-R97W', ' ;the NE/4 of the old Smith farm and,',
             'T154N-R97W the north part of Section,', 'T154N-R97W: all lands lying north of the river.', 'Sec 14 only, no township;',
             'T154N-R97W Sec 14 NE/4, Sec 15 W/2', '', 'and of the T154N-R97W Section NE/4 in', 'Township 154 North, Range 97 West\nSec 14: NE/4 and',
             '154N-97W Sec 14: less and except the wellbore of']
    import random
    from props import gen
    rng = random.Random(seed)
    n = 40 if tier == 'quick' else 1200
    texts = texts + ['T154N-R97W Sec 24 - 27: S/2, Sec 28: N/2', 'Sec 24 - 27: S/2', 'T154N-R97W Sec 24 - 27 S/2', 'T154N-R97W NE/4',
                     'The W/2 of the tract, T154N-R97W', 'T154N-R97W: all lands north of the river; T155N-R97W: all lands south of it',
                     'T154N-R97W and T155N-R97W, and also T156N-R97W, no section given',
                     'T154N-R97W Sec 14 NE/4, T155N-R97W Sec 15 W/2', 'T154N-R97W of Section 14 NE/4; T155N-R97W of Section 15 W/2',
                     'T154N-R97W Sec 14 NE/4, T155N-R97W Sec 15: W/2', 'NE/4 of the farm, T154N-R97W, W/2 of the ranch, T155N-R97W', 'Sec 14: NE/4, Sec 15: W/2 and Sec 16: ALL, township unknown']
    texts = texts + gen.token_soup(rng, n, max_tokens=9)
    for desc in gen.abstract_descriptions(rng, n // 4):
        w = gen.render(desc, rng.choice(gen.LAYOUTS), twp_style=rng.randrange(6), sec_word=rng.choice(gen.SEC_WORDS), colon=rng.random() < 0.6)
        texts.append(w)
        texts.append(w[:rng.randrange(len(w) + 1)])
    for text in texts:
        for chan in ('init keyword', 'config', 'parse argument'):
            for extra in ('', 'segment', 'sec_within', 'sec_colon_required'):
                try:
                    if chan == 'init keyword':
                        d = pytrs.PLSSDesc(text, layout='copy_all', config=extra or None)
                        tracts = d.tracts
                    elif chan == 'config':
                        d = pytrs.PLSSDesc(text, config=','.join(x for x in ('copy_all', extra) if x))
                        tracts = d.tracts
                    else:
                        d = pytrs.PLSSDesc(text, config=extra or None)
                        tracts = d.parse(layout='copy_all', commit=True)
                except Exception as e:
                    bad({'text': text, 'channel': chan, 'config': extra}, f'{type(e).__name__}: {e}', 'one tract')
                    continue
                ev += 1
                distinct.add((text, chan, extra))
                if len(tracts) != 1 or tracts[0].desc != d.pp_desc:
                    bad({'text': text, 'channel': chan, 'config': extra}, [t.desc for t in tracts], [d.pp_desc])
                elif tracts[0].trs_is_error() and not d.e_flags:
                    bad({'text': text, 'channel': chan, 'config': extra}, 'no error flag', 'error flag for an error TRS')
        # fallback with deduced layout
        for cfg in ('', 'sec_colon_required', 'segment', 'sec_within', 'segment,sec_colon_required', 'segment,sec_within'):
            try:
                d = pytrs.PLSSDesc(text, config=cfg)
            except Exception as e:
                bad({'text': text, 'config': cfg}, f'{type(e).__name__}: {e}', 'no exception')
                continue
            ev += 1
            distinct.add((text, 'deduced', cfg))
            from pytrs.parser.plssdesc.plss_parse import deduce_layout
            no_match = not pytrs.find_sec(d.pp_desc) or not pytrs.find_twprge(d.pp_desc)
            if (no_match and 'segment' not in cfg) or deduce_layout(d.pp_desc) == 'copy_all':
                # copy_all is the only option for the description as a whole (no section or no Twp/Rge anywhere; under `segment`
                # the fallback is per chunk — DESIGN 3.0 — unless the layout deduced for the whole text is copy_all itself)
                if len(d.tracts) != 1 or d.tracts[0].desc != d.pp_desc:
                    bad({'text': text, 'config': cfg}, [(t.trs, t.desc) for t in d.tracts], ['one tract', d.pp_desc])
            whole = [t for t in d.tracts if t.desc == d.pp_desc and d.pp_desc != '']
            if len(whole) > 1:
                bad({'text': text, 'config': cfg}, f'{len(whole)} tracts carry the whole text', 'at most one')
            if len(d.tracts) == 1 and d.tracts[0].desc == d.pp_desc and d.tracts[0].trs_is_error() and not d.e_flags:
                bad({'text': text, 'config': cfg}, 'fallback without error flag', 'error flag')
            if len(samples) < 3:
                samples.append({'text': text, 'config': cfg, 'tracts': [(t.trs, t.desc) for t in d.tracts][:2]})
    for text, cfg in (('T154N-R97W Sec 14 NE/4, Sec 15 W/2', 'sec_colon_required'), ('T154N-R97W the north part of Section,', ''),
                      ('Sec 14 only, no township;', ''), (' ;the NE/4 of the old Smith farm and,', '')):
        d = pytrs.PLSSDesc(text, config=cfg)
        ev += 1
        if len(d.tracts) != 1 or d.tracts[0].desc != d.pp_desc or (d.tracts[0].trs_is_error() and not d.e_flags):
            bad({'text': text, 'config': cfg, 'case': 'fallback'}, [(t.trs, t.desc) for t in d.tracts], [d.pp_desc])
    return {'evaluations': ev, 'distinct_nontrivial': len(distinct), 'violations': violations, 'samples': samples, 'exhaustive': False,
            'bound': f"{len(texts)} texts (hand-picked with / without Twp/Rge, section, colons, leading / trailing separators; token soup; rendered "
                     "descriptions whole and truncated) x 3 channels x 4 extra settings",
            'rule': "forced copy_all gives exactly one tract whose description is pp_desc; fallbacks carry an error flag; never two "
                    "tracts with the whole text; non-trivial = distinct (text, channel, setting)"}


def bounded(tier, seed):
    return [{'name': 'C11-bounded-copy_all', 'run': lambda: _bounded_copyall(tier, seed)}]
