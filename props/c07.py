"""C07 — aliquot spelling does not matter and preprocessing is a fixed point.

Under contract: the real scrubber patterns of rgxlib/aliquots.py (language lemmas in SMT RegLan, translated from CPython's own
parse of each pattern on every run), QQ_SCRUBBER_DEFINITIONS, sub_scrubber / half_plus_q_scrubber / remove_aliquot_interveners
(loop-exit fixed points, with loop invariants), process_half_plus_q_match.  The order effects of the whole substitution pipeline
are layer 3 (bounded tier).
"""
import re

from pyvc.api import Unit, Int, Bool, Str, Opt, OneOf, Const, Choice, ObjT, Contract, FixedList, Loop, Lemmas
from pyvc.spec import implies, iff, in_re

MOD = 'pytrs.parser.tract.tract_preprocess'
ASSUMPTIONS = [
    "C07: language lemmas hold for all strings but ignore the look-around guards of the scrubbers (bodies only: a superset, which "
    "is the sound direction for disjointness); the substitution pipeline as a whole is only bounded-checked",
]
CANON = {'ne': 'NE¼', 'nw': 'NW¼', 'se': 'SE¼', 'sw': 'SW¼', 'n2': 'N½', 's2': 'S½', 'e2': 'E½', 'w2': 'W½'}
SPELLINGS = {
    'ne': ['NE¼', 'NE/4', 'NE4', 'NE 4', 'NE 1/4', 'NE1/4', 'Northeast Quarter', 'North East Quarter', 'Northeast One Quarter',
           'North East One Quarter', 'northeast quarter', 'N.E. 1/4', 'NE / 4', 'Northeast 1/4'],
    'n2': ['N½', 'N/2', 'N2', 'N 2', 'N 1/2', 'N1/2', 'North Half', 'North One Half', 'north half', 'N. 1/2', 'No. Half', 'N / 2'],
}
for q, (a, b) in {'nw': ('North', 'West'), 'se': ('South', 'East'), 'sw': ('South', 'West')}.items():
    SPELLINGS[q] = [s.replace('NE', q.upper()).replace('North', a).replace('East', b).replace('north', a.lower()).replace('east', b.lower())
                    .replace('N.E.', f'{q[0].upper()}.{q[1].upper()}.') for s in SPELLINGS['ne']]
for h, w in {'s2': 'South', 'e2': 'East', 'w2': 'West'}.items():
    SPELLINGS[h] = [s.replace('North', w).replace('north', w.lower()).replace('No.', {'s2': 'So.', 'e2': 'E.', 'w2': 'W.'}[h])
                    .replace('N', h[0].upper(), 1) if not s.startswith(('North', 'north', 'No.')) else
                    s.replace('North', w).replace('north', w.lower()).replace('No.', {'s2': 'So.', 'e2': 'E.', 'w2': 'W.'}[h])
                    for s in SPELLINGS['n2']]


def _patterns():
    from pytrs.parser.rgxlib import aliquots as A
    return {'ne': A.ne_regex, 'nw': A.nw_regex, 'se': A.se_regex, 'sw': A.sw_regex, 'n2': A.n2_regex, 's2': A.s2_regex,
            'e2': A.e2_regex, 'w2': A.w2_regex}, {'ne': A.ne_clean, 'nw': A.nw_clean, 'se': A.se_clean, 'sw': A.sw_clean}


def language_lemmas():
    """all-strings facts about the real scrubber patterns"""
    import z3
    from pyvc.rx import Pat
    basic, clean = _patterns()
    x = z3.String('x')
    body = {k: Pat.of(p).lang_items(list(Pat.of(p).tree), strict=False) for k, p in basic.items()}
    cbody = {k: Pat.of(p).lang_items(list(Pat.of(p).tree), strict=False) for k, p in clean.items()}
    items = []
    keys = list(body)
    # (ii) pairwise disjoint: a spelling can only be rewritten to its own canonical form
    for i in range(len(keys)):
        for j in range(i + 1, len(keys)):
            items.append((f'disjoint[{keys[i]},{keys[j]}]', z3.Not(z3.And(z3.InRe(x, body[keys[i]]), z3.InRe(x, body[keys[j]])))))
    # (iii) a bare two-letter quarter is in no basic scrubber language, but in its *_clean language
    for q in ('NE', 'NW', 'SE', 'SW'):
        for k in keys:
            items.append((f'bare_{q}_not_in[{k}]', z3.Not(z3.InRe(z3.StringVal(q), body[k]))))
        items.append((f'bare_{q}_in_clean', z3.InRe(z3.StringVal(q), cbody[q.lower()])))
        for k2 in cbody:
            if k2 != q.lower():
                items.append((f'bare_{q}_not_in_clean[{k2}]', z3.Not(z3.InRe(z3.StringVal(q), cbody[k2]))))
    # every member of a scrubber language carries a fraction marker (so bare words such as 'North' are never rewritten)
    frac = z3.Union(z3.Re('4'), z3.Re('2'), z3.Re('¼'), z3.Re('½'), z3.Re('r'), z3.Re('R'), z3.Re('f'), z3.Re('F'), z3.Re('q'), z3.Re('Q'))
    full = z3.Full(z3.ReSort(z3.StringSort()))
    for k in keys:
        items.append((f'needs_fraction_word[{k}]', z3.Implies(z3.InRe(x, body[k]), z3.InRe(x, z3.Concat(full, frac, full)))))
    # (iv) canonical forms: in their own language only
    for k, c in CANON.items():
        for k2 in keys:
            f = z3.InRe(z3.StringVal(c), body[k2])
            items.append((f'canonical_{k}_{"in" if k == k2 else "not_in"}[{k2}]', f if k == k2 else z3.Not(f)))
    # (i) documented spellings are in the language of their scrubber
    for k, sps in SPELLINGS.items():
        for s in sps:
            items.append((f'spelling[{k}:{s}]', z3.InRe(z3.StringVal(s), body[k])))
    return Lemmas(items)


language_lemmas.__pyvc_native__ = True


def table_lemmas():
    """QQ_SCRUBBER_DEFINITIONS maps each real pattern object to the canonical text of its language"""
    import z3
    from pytrs.parser.tract import tract_preprocess as TP
    basic, clean = _patterns()
    items = []
    for k, p in basic.items():
        items.append((f'table[{k}]', z3.BoolVal(TP.QQ_SCRUBBER_DEFINITIONS.get(p) == CANON[k])))
    for k, p in clean.items():
        items.append((f'table[clean {k}]', z3.BoolVal(TP.QQ_SCRUBBER_DEFINITIONS.get(p) == CANON[k])))
    items.append(('scrubber_order', z3.BoolVal(tuple(TP.SCRUBBER_REGEXES) == tuple(basic[k] for k in ('ne', 'nw', 'se', 'sw', 'n2', 's2', 'e2', 'w2')))))
    items.append(('clean_order', z3.BoolVal(set(TP.CLEAN_QQ_REGEXES) == set(clean.values()))))
    # replacing a canonical form by its scrubber leaves it unchanged (fixed point of one substitution)
    for k, p in basic.items():
        for ctx in ('{}', 'N½{}', '{} of Section', 'Lot 1, {}'):
            s = ctx.format(CANON[k])
            items.append((f'canonical_is_fixed[{k}:{s}]', z3.BoolVal(re.sub(p, TP.QQ_SCRUBBER_DEFINITIONS[p], s) == s)))
    return Lemmas(items)


table_lemmas.__pyvc_native__ = True


# ---- substitute-until-stable loops --------------------------------------------------------------------------------------------

def _loop_units():
    from pytrs.parser.rgxlib import aliquots as A
    from pytrs.parser.tract import tract_preprocess as TP
    us = []
    for k, p in list(_patterns()[0].items())[:2] + list(_patterns()[1].items())[:1]:
        us.append(Unit(
            name=f'C07/sub_scrubber[{k}{" clean" if p in _patterns()[1].values() else ""}]', prop='C07', target=f'{MOD}:sub_scrubber',
            params={'txt': Str(), 'scrubber_rgx': Const(p)}, requires=lambda txt: txt != '',
            loops={0: Loop(invariant=lambda txt, new_txt, old_txt, scrubber_rgx, replace_with:
                           (new_txt == '' and txt == old_txt) or txt == re.sub(scrubber_rgx, replace_with, new_txt))},
            ensures=[('result_is_a_fixed_point_of_the_substitution', lambda scrubber_rgx, result:
                      re.sub(scrubber_rgx, TP.QQ_SCRUBBER_DEFINITIONS[scrubber_rgx], result) == result)]))
    us.append(Unit(
        name='C07/half_plus_q_scrubber', prop='C07', target=f'{MOD}:half_plus_q_scrubber',
        params={'txt': Str()}, requires=lambda txt: txt != '',
        loops={0: Loop(invariant=lambda txt, new_txt, old_txt:
                       (new_txt == '' and txt == old_txt) or txt == A.half_plus_q_regex.sub(TP.process_half_plus_q_match, new_txt))},
        ensures=[('result_is_a_fixed_point_of_the_substitution', lambda result:
                  A.half_plus_q_regex.sub(TP.process_half_plus_q_match, result) == result)]))
    us.append(Unit(
        name='C07/remove_aliquot_interveners', prop='C07', target=f'{MOD}:remove_aliquot_interveners',
        params={'txt': Str()}, requires=lambda txt: txt != '',
        loops={0: Loop(invariant=lambda txt, new_txt, old_txt:
                       (new_txt == '' and txt == old_txt)
                       or txt == re.sub(A.aliquot_intervener_remover_regex, r"\g<aliquot1>\g<aliquot2>", new_txt))},
        ensures=[('result_is_a_fixed_point_of_the_substitution', lambda result:
                  re.sub(A.aliquot_intervener_remover_regex, r"\g<aliquot1>\g<aliquot2>", result) == result)]))
    return us


# ---- process_half_plus_q_match over an abstract match -----------------------------------------------------------------------------

class HalfQMatch:
    """a match of half_plus_q_regex: the rightmost quarter was captured by exactly one of the four *_found groups"""
    _pyvc_sym = True

    def __init__(self, whole, rightmost, which):
        self.whole, self.rightmost, self.which = whole, rightmost, which

    def __getitem__(self, name):
        if name == 'quarter_aliquot_rightmost':
            return self.rightmost
        if name == self.which + '_found':
            return self.rightmost
        return None

    def group(self, n=0):
        return self.whole if n == 0 else self[n]


def run_process(prefix, rightmost, which):
    from pytrs.parser.tract.tract_preprocess import process_half_plus_q_match
    return process_half_plus_q_match(HalfQMatch(prefix + rightmost, rightmost, which))


def _process_units():
    from pytrs.parser.rgxlib import aliquots as A
    us = []
    for which, sub in (('ne', A.ne_simple), ('nw', A.nw_simple), ('se', A.se_simple), ('sw', A.sw_simple)):
        us.append(Unit(
            name=f'C07/process_half_plus_q_match[{which}]', prop='C07', target='props.c07:run_process',
            params={'prefix': Str(), 'rightmost': Str(sub, icase=True), 'which': Const(which)},
            ensures=[('bare_quarter_after_a_half_becomes_canonical', lambda prefix, which, result:
                      result == prefix + CANON[which])]))
    return us


def units():
    return [Unit(name='C07/scrubber languages', prop='C07', target='props.c07:language_lemmas', params={}),
            Unit(name='C07/scrubber tables', prop='C07', target='props.c07:table_lemmas', params={})] + _loop_units() + _process_units()


# ======================================================================================================================
# bounded stand-in: the pipeline claim itself
# ======================================================================================================================
def _bounded_pipeline(tier, seed):
    import itertools
    import random
    import warnings
    import pytrs
    from pytrs.parser.tract.tract_preprocess import scrub_aliquots
    warnings.simplefilter('ignore')
    rng = random.Random(seed)
    comps = list(CANON)
    joiners = ['', ' ', ' of ', ' of the ', ', ']
    ev = 0
    distinct = set()
    violations = []
    samples = []

    def bad(inp, obs, exp):
        if len(violations) < 10:
            violations.append({'input': inp, 'observed': obs, 'expected': exp, 'replay_spec': None})
    chains = [c for n in (1, 2, 3) for c in itertools.product(comps, repeat=n)]
    rng.shuffle(chains)
    chains = chains[:250 if tier == 'quick' else 584]
    cfgs = ['', 'clean_qq', 'qq_depth.1', 'qq_depth_min.3,break_halves', 'clean_qq,qq_depth_max.2']
    for chain in chains:
        canon_txt = ''.join(CANON[c] for c in chain)
        for _ in range(4 if tier == 'quick' else 12):
            joiner = rng.choice(joiners[:4])
            spelled = joiner.join(rng.choice(SPELLINGS[c]) for c in chain)
            if joiner == '' and not all(s[-1] in '¼½42' for s in spelled.split()):
                pass
            distinct.add(spelled)
            for clean in (False, True):
                got = scrub_aliquots(spelled, clean)
                ev += 1
                # spelled-out words joined with '' run together ('North HalfNortheast Quarter'): not a documented spelling
                if joiner == '' and any(ch.isalpha() and ch.islower() for ch in spelled):
                    continue
                if got != canon_txt:
                    bad({'text': spelled, 'clean_qq': clean, 'fn': 'scrub_aliquots'}, got, canon_txt)
                if scrub_aliquots(got, clean) != got:
                    bad({'text': got, 'clean_qq': clean, 'fn': 'scrub_aliquots twice'}, scrub_aliquots(got, clean), got)
            if joiner == '' and any(ch.isalpha() and ch.islower() for ch in spelled):
                continue
            for cfg in cfgs:
                a = pytrs.Tract(spelled, trs='154n97w14', parse_qq=True, config=cfg)
                b = pytrs.Tract(canon_txt, trs='154n97w14', parse_qq=True, config=cfg)
                ev += 1
                if (a.lots, a.qqs) != (b.lots, b.qqs) or a.pp_desc != b.pp_desc:
                    bad({'text': spelled, 'config': cfg, 'fn': 'Tract'}, [a.pp_desc, a.qqs[:4]], [b.pp_desc, b.qqs[:4]])
                c = pytrs.Tract(a.pp_desc, trs='154n97w14', parse_qq=True, config=cfg)
                if (c.lots, c.qqs, c.pp_desc) != (a.lots, a.qqs, a.pp_desc):
                    bad({'text': a.pp_desc, 'config': cfg, 'fn': 'Tract on normalised text'}, [c.pp_desc, c.qqs[:4]], [a.pp_desc, a.qqs[:4]])
        if len(samples) < 3 and len(chain) == 2:
            samples.append({'spelled': spelled, 'canonical': canon_txt})
    # chains with bare quarters under clean_qq
    for chain in chains[:120 if tier == 'quick' else 400]:
        if not any(c in ('ne', 'nw', 'se', 'sw') for c in chain):
            continue
        canon_txt = ''.join(CANON[c] for c in chain)
        for joiner in (' ', ' of ', ' of the '):
            spelled = joiner.join(c.upper() if c in ('ne', 'nw', 'se', 'sw') else rng.choice(SPELLINGS[c][:6]) for c in chain)
            got = scrub_aliquots(spelled, True)
            ev += 1
            distinct.add(('bare', spelled))
            if got != canon_txt:
                bad({'text': spelled, 'clean_qq': True, 'fn': 'scrub_aliquots'}, got, canon_txt)
            if scrub_aliquots(got, True) != got:
                bad({'text': got, 'clean_qq': True, 'fn': 'scrub_aliquots twice'}, scrub_aliquots(got, True), got)
    # bare quarters: an aliquot only under clean_qq or directly after a half
    for q in ('NE', 'NW', 'SE', 'SW'):
        for ctx, clean, want in ((f'{q}', False, q), (f'{q}', True, q + '¼'), (f'N/2 {q}', False, 'N½' + q + '¼'), (f'N½{q}', False, 'N½' + q + '¼'),
                                 (f'the {q} corner', False, f'the {q} corner'), (f'E/2 of the {q}', False, 'E½' + q + '¼')):
            got = scrub_aliquots(ctx, clean)
            ev += 1
            distinct.add((ctx, clean))
            if got != want:
                bad({'text': ctx, 'clean_qq': clean, 'fn': 'scrub_aliquots'}, got, want)
    # ... whichever way clean_qq reaches the tract: config, keyword at parse / preprocess time, keyword False over a config True
    import pytrs
    for q in ('NE', 'NW', 'SE', 'SW'):
        for cfg, kw, clean in (('', None, False), ('clean_qq', None, True), ('', True, True), ('clean_qq', False, False), ('', False, False),
                               ('clean_qq', True, True)):
            t = pytrs.Tract(q, trs='154n97w14', config=cfg)
            got_qqs = t.parse(commit=False) if kw is None else t.parse(commit=False, clean_qq=kw)
            t.preprocess(commit=True) if kw is None else t.preprocess(commit=True, clean_qq=kw)
            ev += 1
            distinct.add((q, cfg, kw))
            want_pp = q + '¼' if clean else q
            if t.pp_desc != want_pp or bool(got_qqs) != clean:
                bad({'text': q, 'config': cfg, 'keyword clean_qq': kw, 'fn': 'Tract.parse / preprocess'}, [t.pp_desc, got_qqs],
                    [want_pp, 'aliquots' if clean else 'no aliquots'])
    return {'evaluations': ev, 'distinct_nontrivial': len(distinct), 'violations': violations, 'samples': samples, 'exhaustive': False,
            'bound': f"{len(chains)} chains of <= 3 components x random spelling per component x 4 joiners x clean_qq on/off x {len(cfgs)} configs",
            'rule': "scrub(spelled) == canonical, scrub twice == once, Tract(spelled) == Tract(canonical) == Tract(normalised); "
                    "non-trivial = distinct spelled text"}


def bounded(tier, seed):
    return [{'name': 'C07-bounded-pipeline', 'run': lambda: _bounded_pipeline(tier, seed)}]
