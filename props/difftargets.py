"""Differential self-test targets: thin wrappers around real pyTRS functions that return plain data.  `./check setup` runs each of
them twice on the same concrete arguments — natively under CPython and through the pyvc interpreter (which executes the same
source from its AST) — and demands equal results.  This checks the executor's model of Python (control flow, scoping, exceptions,
comprehensions, string / list / dict / regex operations on concrete values), not any property."""


def d_parse_aliquot(text, qq_depth_min, qq_depth_max, qq_depth, break_halves):
    from pytrs.parser.tract.aliquot_parse import parse_aliquot
    return parse_aliquot(text, qq_depth_min, qq_depth_max, qq_depth, break_halves)


def d_cleanup_desc(text):
    from pytrs.parser.plssdesc.plss_parse import cleanup_desc
    return cleanup_desc(text)


def d_trs(s):
    from pytrs import TRS
    t = TRS(s)
    return (t.trs, t.twp, t.rge, t.sec, t.twp_num, t.twp_ns, t.rge_num, t.rge_ew, t.sec_num, t.is_error(), t.is_undef(), t.pretty_twprge())


def d_construct_trs(twp, rge, sec):
    from pytrs import TRS
    return TRS.construct_trs(twp, rge, sec)


def d_config(text):
    from pytrs import Config
    c = Config(text)
    return (c.decompile_to_text(), c.clean_qq, c.qq_depth, c.qq_depth_min, c.layout, c.default_ns, c.segment)


def d_tract(text, cfg):
    from pytrs import Tract
    t = Tract(text, trs='154n97w14', config=cfg, parse_qq=True)
    return (t.pp_desc, t.lots, t.qqs, t.ilots, t.lot_acres, t.aliquots_whole, t.w_flags, t.w_flag_lines, t.e_flags)


def d_plssdesc(text, cfg):
    from pytrs import PLSSDesc
    d = PLSSDesc(text, config=cfg)
    return ([(t.trs, t.desc, t.orig_index, t.w_flags, t.e_flags, t.lots, t.qqs) for t in d.tracts], d.w_flags, d.e_flags, d.w_flag_lines,
            d.e_flag_lines, d.pp_desc, d.current_layout)


def d_sort(trs_list, key):
    from pytrs import TRSList
    l = TRSList(trs_list)
    l.custom_sort(key)
    return [t.trs for t in l]


def d_unpackers(text):
    from pytrs.parser.unpack.unpackers import SecUnpacker, LotUnpacker
    from pytrs.parser.rgxlib import multisec_regex, multilot_regex
    out = []
    m = multisec_regex.search(text)
    if m is not None:
        u = SecUnpacker(m.group())
        out.append((u.sec_list, u.flags, u.flag_lines))
    m = multilot_regex.search(text)
    if m is not None:
        u = LotUnpacker(m.group())
        out.append((u.lot_list, u.lot_acres, u.flags, u.aliquots_through))
    return out


def d_containers(texts):
    from pytrs import PLSSDesc, TractList
    tl = TractList()
    for x in texts:
        tl.extend(PLSSDesc(x, config='parse_qq').tracts)
    dups = tl.filter_duplicates('desc')
    errs = tl.filter_errors()
    g = tl.group_by('twprge')
    return ([t.trs for t in dups], [t.trs for t in errs], {k: [t.trs for t in v] for k, v in g.items()}, tl.tracts_to_list('trs', 'qqs'),
            tl.pretty_desc() if hasattr(tl, 'pretty_desc') else None)


def samples():
    import random
    from props import gen
    rng = random.Random(7)
    S = []
    for txt in ('NE¼', 'N½NE¼', 'E½W½', 'SW¼NE¼NW¼', 'ALL', 'N½', 'NE¼SE¼SW¼NW¼', 'W½E½NE¼', ''):
        for dm, dx, d, bh in ((2, None, None, False), (1, None, None, False), (3, None, None, True), (1, 3, None, False), (2, None, 1, False),
                              (2, 1, None, True), (4, None, None, False), (2, 0, None, False)):
            S.append(('d_parse_aliquot', (txt, dm, dx, d, bh)))
    for txt in ('NE/4, and ', ' ;,NE/4 of ', 'That part of the NE/4 lying in', 'and the ', '', 'Lots 1 - 3, in', ':; of the NE/4 in said '):
        S.append(('d_cleanup_desc', (txt,)))
    for s in ('154n97w14', '7n2e01', 'XXXz97w01', '154nXXXz14', '___z___z__', 'garbage', '', '154N97W14', '1154n97w14', '154n97wXX', None):
        S.append(('d_trs', (s,)))
    for a in ((154, 97, 14), ('154n', '97w', '14'), ('7s', 2, None), (None, None, None), ('asdf', '97w', 1), ('154n', '97w-1e', 1), (0, 0, 0)):
        S.append(('d_construct_trs', a))
    for c in ('', 'clean_qq', 'n,w,segment', 'qq_depth.3,layout.TRS_desc', 'clean_qq.False,qq_depth_min.1', 's', 'copy_all,parse_qq'):
        S.append(('d_config', (c,)))
    tract_texts = ['N/2 of Lot 1, Lots 3 - 5(40.1), NE/4', 'ALL', 'Lot 1, Lot 1, S/2NE/4; SW/4NE/4', 'NE, N2SW', 'E/2 of Lots 9 thru 7 and Lot 2[38]',
                   'That part of the NE/4 lying north of the river', '', 'Lots 1-3\nNE/4\nW/2 of Lot 9']
    for t in tract_texts:
        for c in ('', 'clean_qq', 'suppress_lot_divs,qq_depth.1', 'qq_depth_min.3,break_halves'):
            S.append(('d_tract', (t, c)))
    descs = [gen.render(d, rng.choice(gen.LAYOUTS), twp_style=rng.randrange(6), sec_word=rng.choice(gen.SEC_WORDS), colon=rng.random() < 0.8)
             for d in gen.abstract_descriptions(rng, 12)]
    descs += gen.token_soup(rng, 14, max_tokens=9) + ['T154N-R97W Section NE/4', 'Sec 14 NE/4, Sec 15 W/2, T154N-R97W', '']
    for t in descs:
        for c in ('', 'segment', 'sec_colon_required,parse_qq', 'copy_all', 'sec_within,ocr_scrub'):
            S.append(('d_plssdesc', (t, c)))
    pool = ['154n97w14', '7s2e01', '154n97w01', 'XXXz97w01', '___z___z__', '12n100w36', '154nXXXz14', '7n2w01']
    for k in ('i,s,r,t', 't.ns', 'r.ew.rev,s', 's.rev', 't.sn,r.we', 'i.reverse', 'x.ns', 'tt'):
        S.append(('d_sort', ([rng.choice(pool) for _ in range(6)], k)))
    for t in ('Sections 1 - 3, 5 and 9', 'Sec 14', 'Secs 9 through 7, Sec 2', 'Lots 1 - 3, 5(40) & Lot 9', 'Lot 4 thru Lot 2', 'nothing here'):
        S.append(('d_unpackers', (t,)))
    S.append(('d_containers', (descs[:4] + ['T154N-R97W Sec 14: NE/4', 'T154N-R97W Sec 14: NE/4', 'no twprge here'],)))
    return S
