"""C19 — bulk export is faithful, ordered and total over documented attributes.

Functions under contract: Tract.to_dict, to_list, get_headers; TractList.tracts_to_dict, tracts_to_list, iter_to_dict,
iter_to_list, tracts_to_csv (incl. its inner scrub_row); TractWriter.__init__, write_headers, write, _scrub_row; utils.flatten.
Trusted: csv.writer.writerow followed by csv.reader returns the row of strings; open(); pathlib.Path.exists().
"""
from pyvc.api import Unit, Int, Bool, Str, Opt, OneOf, Const, Choice, ObjT, Contract, FixedList, Tup, DictOf
from pyvc.spec import implies, iff, in_re
from props.shapes import Native

ASSUMPTIONS = [
    "C19: csv.writer / csv.reader / open / Path.exists are trusted (the writer is replaced by a ghost object that logs rows); "
    "lists hold 0..2 tracts in the proved part",
]
TRUSTED = ["csv module round trip (writerow then reader gives back the strings)"]


def _tract():
    import pytrs
    return pytrs.Tract('Lots 1 - 2(40.1), NE/4', trs='154n97w14', parse_qq=True)


def _tract_shape():
    return Native(_tract, desc=Str(), source=Opt(Str()), orig_index=Int(),
                  lots=FixedList(Str(), Str()), qqs=FixedList(Str()),
                  w_flags=FixedList(Str()), w_flag_lines=FixedList(Tup(Str(), Str())),
                  e_flags=FixedList(), e_flag_lines=FixedList())


ATTS = ('trs', 'desc', 'lots', 'qqs', 'w_flags', 'w_flag_lines', 'source', 'orig_index', 'twp_num', 'no_such_attribute')


def to_dict_h(t, attributes):
    return t.to_dict(*attributes)


def to_list_h(t, attributes):
    return t.to_list(*attributes)


def value_or_na(t, att):
    return getattr(t, att, att + ': n/a')


def _record_units():
    us = []
    for nm, fn, post in (
            ('to_dict', 'to_dict_h', lambda t, attributes, result:
                len(result) == len(attributes) and all([result[a] == value_or_na(t, a) for a in attributes])),
            ('to_list', 'to_list_h', lambda t, attributes, result:
                len(result) == len(attributes) and all([result[n] == value_or_na(t, attributes[n]) for n in range(len(attributes))]))):
        us.append(Unit(name=f'C19/Tract.{nm}', prop='C19', target=f'props.c19:{fn}',
                       params={'t': _tract_shape(), 'attributes': Const(list(ATTS))},
                       ensures=[('values_equal_attributes_or_na', post)]))
    return us


def tl_of(t1, t2, n):
    from pytrs import TractList
    return TractList([t1, t2][:n])


def tracts_to_dict_h(t1, t2, n, attributes):
    return tl_of(t1, t2, n).tracts_to_dict(attributes)


def tracts_to_list_h(t1, t2, n, attributes):
    return tl_of(t1, t2, n).tracts_to_list(*attributes)


def iter_to_dict_h(t1, t2, n, attributes):
    return [r for r in tl_of(t1, t2, n).iter_to_dict(attributes)]


def iter_to_list_h(t1, t2, n, attributes):
    return [r for r in tl_of(t1, t2, n).iter_to_list(*attributes)]


def _bulk_units():
    us = []
    atts = ['trs', 'lots', 'w_flag_lines', 'nope']
    for fn, is_dict in (('tracts_to_dict_h', True), ('iter_to_dict_h', True), ('tracts_to_list_h', False), ('iter_to_list_h', False)):
        if is_dict:
            def post(t1, t2, n, attributes, result):
                ts = [t1, t2][:n]
                return len(result) == n and all([all([result[k][a] == value_or_na(ts[k], a) for a in attributes])
                                                 and len(result[k]) == len(attributes) for k in range(n)])
        else:
            def post(t1, t2, n, attributes, result):
                ts = [t1, t2][:n]
                return len(result) == n and all([all([result[k][j] == value_or_na(ts[k], attributes[j]) for j in range(len(attributes))])
                                                 and len(result[k]) == len(attributes) for k in range(n)])
        us.append(Unit(name=f'C19/TractList.{fn[:-2]}', prop='C19', target=f'props.c19:{fn}',
                       params={'t1': _tract_shape(), 't2': _tract_shape(), 'n': Choice(Const(0), Const(1), Const(2)),
                               'attributes': Const(atts)},
                       ensures=[('one_record_per_tract_in_order', post)]))
    return us


# ---- cell scrubbing ------------------------------------------------------------------------------------------------------------

def cell_spec(elem):
    """what a cell must contain: the scalar itself, or the str() of every element (nested tuples flattened) joined, or the
    key:value pairs of a dict"""
    if isinstance(elem, dict):
        return ','.join([str(k) + ':' + str(v) for k, v in elem.items()])
    if isinstance(elem, (list, tuple)):
        return ', '.join([str(x) for x in flat1(elem)])
    return elem


def flat1(xs):
    out = []
    for x in xs:
        if isinstance(x, (list, tuple)):
            out = out + flat1(x)
        else:
            out = out + [x]
    return out


def _cell_shapes():
    return FixedList(Str(), Int(), Const(None), Bool(),
                     FixedList(Str(), Str()), FixedList(Int(), Int()), FixedList(), FixedList(Tup(Str(), Str()), Tup(Str(), Str())),
                     DictOf(L1=Str(), L2=Str()), DictOf())


def _scrub_units():
    from pytrs.utils import flatten
    post = [('cells_hold_every_element', lambda data, result:
             len(result) == len(data) and all([result[n] == cell_spec(data[n]) for n in range(len(data))]))]
    return [
        Unit(name='C19/tracts_to_csv.scrub_row', prop='C19',
             target='pytrs.parser.containers.containers:TractList.tracts_to_csv.scrub_row',
             params={'data': _cell_shapes()}, env={'flatten': Const(flatten)}, ensures=post),
        Unit(name='C19/TractWriter._scrub_row', prop='C19', target='pytrs.tractwriter.tractwriter:TractWriter._scrub_row',
             params={'data': _cell_shapes()}, ensures=post),
    ]


# ---- writers: one row per tract, header rule ---------------------------------------------------------------------------------------

class GhostWriter:
    """stands for csv.writer(file): writerow is logged (its methods are interpreted like any props function)"""
    _pyvc_sym = True

    def __init__(self):
        self.rows = []

    def writerow(self, row):
        self.rows.append([x for x in row])


class GhostPath:
    """stands for pathlib.Path(fp): exists() is a symbolic boolean"""
    _pyvc_sym = True

    def __init__(self, exists):
        self.exists_value = exists

    def exists(self):
        return self.exists_value


from pyvc.values import Uninterp as _Uninterp


class GhostFile(_Uninterp):
    """stands for an open file object"""

    def __init__(self):
        self.tag = 'file'
        self.closed = False

    def close(self):
        return None


def _install_io(ip, env):
    import builtins
    import csv
    import pathlib
    from pyvc import models
    exists = env.get('file_exists')
    models.register_model(builtins.open, lambda ip_, a, k, n: GhostFile())

    def path_model(ip_, args, kwargs, node):
        return GhostPath(exists)

    def writer_model(ip_, args, kwargs, node):
        w = GhostWriter()
        ip_.hooks.setdefault(('writers',), []).append(w)
        return w
    models.register_model(pathlib.Path, path_model)
    models.register_model(csv.writer, writer_model)


def csv_h(t1, t2, n, attributes, mode, nice_headers, file_exists):
    tl_of(t1, t2, n).tracts_to_csv(attributes, 'out.csv', mode, nice_headers)
    return None


def rows_written(ip_hooks):
    return ip_hooks


def _csv_post(t1, t2, n, attributes, mode, file_exists, writers):
    ts = [t1, t2][:n]
    if len(writers) != 1:
        return False
    rows = writers[0].rows
    if file_exists and mode == 'a':
        body = rows                                   # appending to an existing file: no header row
    else:
        if len(rows) == 0 or len(rows[0]) != len(attributes):
            return False
        body = rows[1:]
    return (len(body) == n
            and all([len(body[k]) == len(attributes)
                     and all([body[k][j] == cell_spec(value_or_na(ts[k], attributes[j])) for j in range(len(attributes))])
                     for k in range(n)]))


def _csv_units():
    atts = ['trs', 'lots', 'w_flag_lines', 'orig_index', 'nope']
    return [Unit(
        name='C19/TractList.tracts_to_csv', prop='C19', target='props.c19:csv_h',
        params={'t1': _tract_shape(), 't2': _tract_shape(), 'n': Choice(Const(0), Const(1), Const(2)), 'attributes': Const(atts),
                'mode': Choice(Const('w'), Const('a')), 'nice_headers': Choice(Const(False), Const(True)), 'file_exists': Bool()},
        setup_params=_install_io,
        ensures=[('header_rule_and_one_row_per_tract', lambda t1, t2, n, attributes, mode, file_exists, hooks_:
                  _csv_post(t1, t2, n, attributes, mode, file_exists, hooks_[('writers',)]))])]


def tw_h(t1, t2, n, attributes, mode, file_exists, plus_cols, uid):
    from pytrs.tractwriter import TractWriter
    w = TractWriter(attributes, 'out.csv', mode, plus_cols=['extra'] if plus_cols else None, uid=uid)
    k = w.write(tl_of(t1, t2, n), plus_cols=['x'] if plus_cols else None)
    k2 = w.write(None)
    w.close()
    return (k, k2)


def _tw_post(t1, t2, n, attributes, mode, file_exists, plus_cols, uid, result, writers):
    ts = [t1, t2][:n]
    if len(writers) != 1 or result[0] != n or result[1] != 0:
        return False
    rows = writers[0].rows
    width = len(attributes) + (1 if plus_cols else 0) + (1 if uid is not None else 0)
    if file_exists and mode == 'a':
        body = rows
    else:
        if len(rows) == 0 or len(rows[0]) != width:
            return False
        body = rows[1:]
    return (len(body) == n
            and all([len(body[k]) == width
                     and all([body[k][j] == cell_spec(value_or_na(ts[k], attributes[j])) for j in range(len(attributes))])
                     for k in range(n)]))


def _tw_units():
    atts = ['trs', 'lots', 'ilots_like', 'w_flag_lines', 'orig_index']
    return [Unit(
        name='C19/TractWriter[init+write]', prop='C19', target='props.c19:tw_h',
        params={'t1': _tract_shape(), 't2': _tract_shape(), 'n': Choice(Const(0), Const(1), Const(2)), 'attributes': Const(atts),
                'mode': Choice(Const('w'), Const('a')), 'file_exists': Bool(), 'plus_cols': Choice(Const(False), Const(True)),
                'uid': Choice(Const(None), Const(7))},
        setup_params=_install_io,
        ensures=[('header_rule_and_one_row_per_tract', lambda t1, t2, n, attributes, mode, file_exists, plus_cols, uid, result, hooks_:
                  _tw_post(t1, t2, n, attributes, mode, file_exists, plus_cols, uid, result, hooks_[('writers',)]))])]


def headers_h(attributes, nice_headers, plus_cols):
    from pytrs import Tract
    return Tract.get_headers(attributes, nice_headers, plus_cols)


def _headers_units():
    atts = ['trs', 'desc', 'nope']
    return [Unit(
        name='C19/Tract.get_headers', prop='C19', target='props.c19:headers_h',
        params={'attributes': Const(atts),
                'nice_headers': Choice(Const(False), Const(True), Const({'trs': 'T'}), Const(['a', 'b', 'c'])),
                'plus_cols': Choice(Const(None), Const(['p']))},
        ensures=[('one_header_per_column', lambda attributes, plus_cols, result:
                  len(result) == len(attributes) + (1 if plus_cols else 0))])]


def units():
    return _record_units() + _bulk_units() + _scrub_units() + _csv_units() + _tw_units() + _headers_units()


# ======================================================================================================================
# bounded stand-in: real files written and read back
# ======================================================================================================================
def _expected_cell(v):
    if isinstance(v, dict):
        return ','.join(f"{k}:{x}" for k, x in v.items())
    if isinstance(v, (list, tuple)):
        return ', '.join(str(x) for x in flat1(v))
    if v is None:
        return ''
    return str(v)


def _bounded_csv(tier, seed):
    import csv
    import itertools
    import os
    import random
    import tempfile
    import pytrs
    from pytrs.tractwriter import TractWriter
    rng = random.Random(seed)
    texts = ['T154-R97 Sec 14: Lots 1 - 3(40.1), Lot 1, NE/4 less and except the "old" wellbore, including 5%',
             'T154N-R97W Sec 14: NE/4,\nthat part of the SW/4 lying "north", of the river; Sec 15: Lot 2 [39.5], Lot 2',
             'no twprge here, at all', 'T1N-R2E Sec 1: ALL']
    all_atts = list(pytrs.Tract.ATTRIBUTES) + ['no_such_attribute']
    ev = 0
    distinct = set()
    violations = []
    samples = []

    def bad(inp, obs, exp):
        if len(violations) < 10:
            violations.append({'input': inp, 'observed': obs, 'expected': exp, 'replay_spec': None})
    tmpdir = tempfile.mkdtemp(prefix='c19_')
    try:
        for text in texts:
            for cfg in ('parse_qq', ''):
                d = pytrs.PLSSDesc(text, config=cfg, source='src,"1"')
                tl = d.tracts
                subsets = [all_atts, ['trs', 'desc'], ['ilots', 'w_flag_lines', 'lot_acres', 'no_such_attribute'], list(reversed(all_atts))]
                for _ in range(3 if tier == 'quick' else 12):
                    k = rng.randint(1, len(all_atts))
                    subsets.append(rng.sample(all_atts, k))
                for atts in subsets:
                    # records
                    dicts = tl.tracts_to_dict(atts)
                    lists = tl.tracts_to_list(atts)
                    ev += 2
                    distinct.add((text, cfg, tuple(atts)))
                    exp = [[getattr(t, a, f"{a}: n/a") for a in atts] for t in tl]
                    if lists != exp or [[r[a] for a in atts] for r in dicts] != exp or list(tl.iter_to_list(atts)) != exp \
                            or [list(r.values()) for r in tl.iter_to_dict(atts)] != exp:
                        bad({'text': text, 'attributes': atts, 'op': 'tracts_to_list/dict'}, str(lists)[:200], str(exp)[:200])
                    # files, both writers, both modes, existing / new file
                    for writer in ('tracts_to_csv', 'TractWriter'):
                        for nice in (False, True):
                            fp = os.path.join(tmpdir, f'f{ev}.csv')
                            expected_rows = []
                            for mode, pre_exists in (('w', False), ('a', True), ('w', True)):
                                try:
                                    if writer == 'tracts_to_csv':
                                        tl.tracts_to_csv(atts, fp, mode, nice_headers=nice)
                                    else:
                                        w = TractWriter(atts, fp, mode, nice_headers=nice)
                                        n = w.write(tl)
                                        w.close()
                                        if n != len(tl):
                                            bad({'text': text, 'writer': writer}, n, len(tl))
                                except Exception as e:
                                    bad({'text': text, 'config': cfg, 'attributes': atts, 'writer': writer, 'mode': mode},
                                        f"{type(e).__name__}: {e}", 'file written')
                                    break
                                ev += 1
                                hdr = [pytrs.Tract.ATTRIBUTES.get(a, a) for a in atts] if nice else list(atts)
                                if mode == 'w':
                                    expected_rows = [hdr]
                                elif not pre_exists:
                                    expected_rows = [hdr]
                                expected_rows = expected_rows + [[_expected_cell(v) for v in row] for row in exp]
                                with open(fp, newline='') as f:
                                    got = list(csv.reader(f))
                                if got != expected_rows:
                                    first = next((i for i in range(min(len(got), len(expected_rows))) if got[i] != expected_rows[i]), None)
                                    bad({'text': text, 'config': cfg, 'attributes': atts, 'writer': writer, 'mode': mode, 'nice_headers': nice},
                                        {'rows': len(got), 'first_diff': str(got[first])[:150] if first is not None else None},
                                        {'rows': len(expected_rows), 'first_diff': str(expected_rows[first])[:150] if first is not None else None})
                            if os.path.exists(fp):
                                os.remove(fp)
                            # append to a file that does not exist yet: header must be written
                            fp2 = os.path.join(tmpdir, f'g{ev}.csv')
                            try:
                                if writer == 'tracts_to_csv':
                                    tl.tracts_to_csv(atts, fp2, 'a', nice_headers=nice)
                                else:
                                    w = TractWriter(atts, fp2, 'a', nice_headers=nice)
                                    w.write(tl)
                                    w.close()
                            except Exception as e:
                                bad({'text': text, 'config': cfg, 'attributes': atts, 'writer': writer, 'mode': 'a (new file)'},
                                    f"{type(e).__name__}: {e}", 'file written')
                                continue
                            ev += 1
                            with open(fp2, newline='') as f:
                                got = list(csv.reader(f))
                            hdr = [pytrs.Tract.ATTRIBUTES.get(a, a) for a in atts] if nice else list(atts)
                            if got[:1] != [hdr] or len(got) != len(tl) + 1:
                                bad({'text': text, 'attributes': atts, 'writer': writer, 'mode': 'a (new file)'}, str(got[:1])[:150], str([hdr])[:150])
                            os.remove(fp2)
                if len(samples) < 2:
                    samples.append({'text': text[:50], 'attributes': subsets[2], 'row': [_expected_cell(getattr(tl[0], a, f'{a}: n/a')) for a in subsets[2]]})
    finally:
        import shutil
        shutil.rmtree(tmpdir, ignore_errors=True)
    return {'evaluations': ev, 'distinct_nontrivial': len(distinct), 'violations': violations, 'samples': samples, 'exhaustive': False,
            'bound': f"{len(texts)} descriptions x 2 configs x (4 fixed + random) attribute subsets of Tract.ATTRIBUTES + unknown x 2 writers "
                     "x header options x modes w/a on new and existing files",
            'rule': "files written by the real writers are read back with csv.reader and compared cell by cell with the attribute "
                    "values; non-trivial = distinct (text, config, attribute list)"}


def bounded(tier, seed):
    return [{'name': 'C19-bounded-csv-readback', 'run': lambda: _bounded_csv(tier, seed)}]
