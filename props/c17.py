"""C17 — sorting is a stable multi-key permutation with errors last.

Functions under contract: _TRSTractList._sort_custom with its inner functions (get_max, extract_safe_num,
i_sort_evaluate, n_to_s, w_to_e, parse_key) and the sort_defs / legal_methods tables; _TRSTractList.sort / reverse.

Trusted: builtin list.sort(key=, reverse=) is a stable permutation ordered by the key (reverse=True: descending,
equal keys keep their original order) and list.reverse() reverses; the executor records those calls on the ghost
list instead of executing them.
"""
from pyvc.api import Unit, Int, Bool, Str, Opt, OneOf, Const, Choice, ObjT, Contract, Loop, Tup
from pyvc.spec import implies, iff, elem_at, key_of, ghost_log, in_re, name_in_table
from props.shapes import TRSElemSeq

MOD = 'pytrs.parser.containers.containers'
SORT_KEYS = ('i.num', 't.num', 't.ns', 't.sn', 'r.num', 'r.we', 'r.ew', 's.num')


def _tl_shape(kind):
    from pytrs.parser.containers.containers import TractList, TRSList
    cls = TRSList if kind == 'TRS' else TractList
    return ObjT(cls, _elements=TRSElemSeq(kind))


# ---- the order each key stands for (from the property statement) ------------------------------------------------
# before(sk, a, b): a must come before b in a non-reversed pass;  tie(sk, a, b): the pass must not reorder them.
# a, b are dicts / objects exposing twp_num, twp_ns, rge_num, rge_ew, sec_num (and uid for 'i').

def num_before(na, nb):
    return (na is not None and nb is not None and na < nb) or (na is not None and nb is None)


def num_tie(na, nb):
    return (na is not None and nb is not None and na == nb) or (na is None and nb is None)


def dir_before(na, da, nb, db, first, second):
    """`first` direction (farthest first) precedes `second` direction (nearest first); errors/undefined last.
    Townships and ranges are numbered from 1 (T0N / T0S would denote the same line)."""
    return (
        (na is not None and nb is not None and da == first and db == second and (na >= 1 or nb >= 1))
        or (na is not None and nb is not None and da == first and db == first and na > nb)
        or (na is not None and nb is not None and da == second and db == second and na < nb)
        or (na is not None and nb is None)
    )


def dir_tie(na, da, nb, db):
    return (na is not None and nb is not None and da == db and na == nb) or (na is None and nb is None)


def before(sk, a, b):
    if sk == 't.num':
        return num_before(a.twp_num, b.twp_num)
    if sk == 'r.num':
        return num_before(a.rge_num, b.rge_num)
    if sk == 's.num':
        return num_before(a.sec_num, b.sec_num)
    if sk == 't.ns':
        return dir_before(a.twp_num, a.twp_ns, b.twp_num, b.twp_ns, 'n', 's')
    if sk == 't.sn':
        return dir_before(a.twp_num, a.twp_ns, b.twp_num, b.twp_ns, 's', 'n')
    if sk == 'r.we':
        return dir_before(a.rge_num, a.rge_ew, b.rge_num, b.rge_ew, 'w', 'e')
    if sk == 'r.ew':
        return dir_before(a.rge_num, a.rge_ew, b.rge_num, b.rge_ew, 'e', 'w')
    return False


def tie(sk, a, b):
    if sk == 't.num':
        return num_tie(a.twp_num, b.twp_num)
    if sk == 'r.num':
        return num_tie(a.rge_num, b.rge_num)
    if sk == 's.num':
        return num_tie(a.sec_num, b.sec_num)
    if sk == 't.ns' or sk == 't.sn':
        return dir_tie(a.twp_num, a.twp_ns, b.twp_num, b.twp_ns)
    if sk == 'r.we' or sk == 'r.ew':
        return dir_tie(a.rge_num, a.rge_ew, b.rge_num, b.rge_ew)
    return False


def uid_of(x):
    return x._Tract__uid


# ---- unit A: every concrete single key, all element lists ----------------------------------------------------------

def _mk_key_unit(kind, sk, suffix, rev_expected):
    keytxt = sk + suffix

    def ensures_pass(self, reverse, i, j):
        log = ghost_log(self._elements)
        a = elem_at(self._elements, i)
        b = elem_at(self._elements, j)
        return (len(log) == (2 if reverse else 1)
                and log[0][0] == 'sort'
                and log[0][2] == rev_expected
                and implies(before(sk, a, b), key_of(log[0], a) < key_of(log[0], b))
                and implies(tie(sk, a, b), key_of(log[0], a) == key_of(log[0], b))
                and implies(reverse, log[len(log) - 1][0] == 'reverse'))

    def ensures_i(self, reverse, i, j):
        log = ghost_log(self._elements)
        a = elem_at(self._elements, i)
        b = elem_at(self._elements, j)
        return (len(log) == (2 if reverse else 1) and log[0][0] == 'sort' and log[0][2] == rev_expected
                and (iff(uid_of(a) < uid_of(b), key_of(log[0], a) < key_of(log[0], b)) if kind == 'Tract'
                     else key_of(log[0], a) == key_of(log[0], b))
                and implies(reverse, log[len(log) - 1][0] == 'reverse'))
    return Unit(
        name=f"C17/_sort_custom[{kind},{keytxt}]",
        prop='C17',
        target=f"{MOD}:_TRSTractList._sort_custom",
        params={'self': _tl_shape(kind), 'key': Const(keytxt), 'reverse': Choice(Const(False), Const(True))},
        ghost={'i': Int(), 'j': Int()},
        requires=lambda self, i, j: 0 <= i and i < len(self._elements) and 0 <= j and j < len(self._elements),
        ensures=[('order', ensures_i if sk == 'i.num' else ensures_pass)],
        replay=('props.c17:replay_sort', {'kind': kind, 'key': keytxt}),
    )


# ---- unit B: parse_key grammar -----------------------------------------------------------------------------------------
GRAMMAR = r'((i|s)(\.num)?|t(\.(ns|sn|num))?|r(\.(ew|we|num))?)(\.rev(erse)?)?'


def is_rev(k):
    return k.endswith('.rev') or k.endswith('.reverse')


def spec_sk(k):
    """the sort_defs entry a (lower-case, blank-free) key component denotes"""
    base = k[:-4] if k.endswith('.rev') else (k[:-8] if k.endswith('.reverse') else k)
    return base if '.' in base else base + '.num'


def _parse_key_unit():
    import re
    pat = r"(?P<var>[itrs])(\.(?P<method>ns|sn|ew|we|num))?(\.(?P<rev>rev(erse)?))?"
    return Unit(
        name="C17/parse_key",
        prop='C17',
        target=f"{MOD}:_TRSTractList._sort_custom.parse_key",
        params={'k_': Str(ascii_only=True)},
        # closure variables of the enclosing function, as the real code defines them (checked by unit C)
        env={'pat': Const(pat), 'k': Str(), 're': Const(re),
             'legal_methods': Const({"i": ("num", None), "t": ("ns", "sn", "num", None),
                                     "r": ("ew", "we", "num", None), "s": ("num", None)}),
             'illegal_key_error': Const(ValueError("Could not interpret sort key."))},
        # the caller lower-cases, removes blanks and rewrites 'reverse' -> 'rev' before calling
        requires=lambda k_: in_re(k_, r'[^A-Z\s,]*'),
        ensures=[
            ('accepts_only_grammar', lambda k_, result: in_re(k_, GRAMMAR)),
            ('denotes', lambda k_, result: result[0] == spec_sk(k_) and iff(result[1], is_rev(k_))),
        ],
        raises={ValueError: lambda k_: not in_re(k_, GRAMMAR)},
        replay=('props.c17:replay_parse_key', {}),
    )


# ---- unit C: the multi-key loop (<= 3 components, the bound of the property's quantifier) ---------------------------------

def name_of_key(entry, sort_defs):
    """which sort_defs entry the logged key function is"""
    for nm in sort_defs:
        if sort_defs[nm] is entry[1]:
            return nm
    return None


PARSE_KEY_CONTRACT = Contract(
    '_TRSTractList._sort_custom.parse_key',
    result=Tup(OneOf(*SORT_KEYS), Bool()),
    ensures=lambda k_, result: in_re(k_, GRAMMAR) and result[0] == spec_sk(k_) and iff(result[1], is_rev(k_)),
    raises={ValueError: lambda k_: not in_re(k_, GRAMMAR)},
)       # proved by unit C17/parse_key (same clauses)


def _structure_unit(kind, npieces, rev):
    def post(self, key, reverse, locals_):
        import re
        norm = re.sub(r"reverse", "rev", re.sub(r"\s", "", key.lower()))
        pieces = norm.split(',')
        log = ghost_log(self._elements)
        return (len(log) == len(pieces) + (1 if reverse else 0)
                and all(log[p][0] == 'sort'
                        and name_in_table(log[p][1], locals_['sort_defs']) == spec_sk(pieces[p])
                        and iff(log[p][2], is_rev(pieces[p]))
                        and in_re(pieces[p], GRAMMAR)
                        for p in range(len(pieces)))
                and implies(reverse, log[len(log) - 1][0] == 'reverse'))

    def may_raise(key):
        import re
        norm = re.sub(r"reverse", "rev", re.sub(r"\s", "", key.lower()))
        pieces = norm.split(',')
        return not all(in_re(w, GRAMMAR) for w in pieces)
    return Unit(
        name=f"C17/_sort_custom.loop[{kind},pieces={npieces},reverse={rev}]",
        prop='C17',
        target=f"{MOD}:_TRSTractList._sort_custom",
        params={'self': _tl_shape(kind), 'key': Str(ascii_only=True), 'reverse': Const(rev)},
        ensures=[('passes_left_to_right', post)],
        raises={ValueError: may_raise},
        hooks={'max_split': 3, 'split_exact': npieces},
        uses=[PARSE_KEY_CONTRACT],
        timeout_s=600,
        replay=('props.c17:replay_multikey', {'kind': kind}),
        # three components are 4680 paths (about 50 CPU-minutes) per unit: thorough tier; one and two components every run
        thorough_only=(npieces >= 3),
    )


def units():
    us = []
    for kind in ('TRS', 'Tract'):
        for sk in SORT_KEYS:
            for suffix, rv in (('', False), ('.rev', True), ('.reverse', True)):
                us.append(_mk_key_unit(kind, sk, suffix, rv))
    us.append(_parse_key_unit())
    for n in (1, 2, 3):
        for rev in (False, True):
            us.append(_structure_unit('TRS', n, rev))
    return us


# ======================================================================================================================
# native oracle (shared by replay and the bounded stand-in)
# ======================================================================================================================
class _View:
    """attribute view of a real TRS/Tract for the spec functions above"""

    def __init__(self, x, uid=None):
        self.twp_num, self.twp_ns = x.twp_num, x.twp_ns
        self.rge_num, self.rge_ew = x.rge_num, x.rge_ew
        self.sec_num = x.sec_num
        self._Tract__uid = getattr(x, '_Tract__uid', 0)


def normalize_key(key):
    import re
    return re.sub(r"reverse", "rev", re.sub(r"\s", "", key.lower()))


def order_violations(before_list, after_list, key, reverse):
    """necessary conditions on the final order of a multi-key stable sort, from the spec functions before/tie"""
    import re
    problems = []
    if sorted(map(id, before_list)) != sorted(map(id, after_list)):
        return ['result is not a permutation of the input (elements lost or duplicated)']
    pieces = normalize_key(key).split(',')
    if not all(re.fullmatch(GRAMMAR, p) for p in pieces):
        return ['key outside the grammar was accepted']
    passes = [(spec_sk(p), is_rev(p)) for p in pieces]
    final = list(after_list)
    if reverse:
        final = final[::-1]
    pos0 = {id(x): n for n, x in enumerate(before_list)}
    views = {id(x): _View(x) for x in before_list}
    for p in range(len(final)):
        for q in range(p + 1, len(final)):
            x, y = final[p], final[q]
            vx, vy = views[id(x)], views[id(y)]
            decided = False
            for sk, rev in reversed(passes):
                if sk == 'i.num':
                    ux, uy = vx._Tract__uid, vy._Tract__uid
                    if ux == uy:
                        continue
                    wrong = (ux > uy) if not rev else (ux < uy)
                    if wrong:
                        problems.append(f"{x!r} placed before {y!r} against key {sk}{'.rev' if rev else ''}")
                    decided = True
                    break
                if tie(sk, vx, vy):
                    continue
                a, b = (vx, vy) if not rev else (vy, vx)
                if before(sk, b, a):
                    problems.append(f"{x!r} placed before {y!r} against key {sk}{'.rev' if rev else ''}")
                decided = True
                break
            if not decided and pos0[id(x)] > pos0[id(y)]:
                problems.append(f"stability: {x!r} and {y!r} tie on every key but swapped")
    return problems


def _trs_string(row):
    def part(num, d, undef, err, und):
        if num is not None and d is not None:
            return f"{num}{d}"
        return und if undef else err
    twp = part(row.get('twp_num'), row.get('twp_ns'), row.get('twp_undef'), 'XXXz', '___z')
    rge = part(row.get('rge_num'), row.get('rge_ew'), row.get('rge_undef'), 'XXXz', '___z')
    sec = f"{row['sec_num']:02d}" if row.get('sec_num') is not None else ('__' if row.get('sec_undef') else 'XX')
    return f"{twp}{rge}{sec}"


def _build_list(kind, strings):
    import pytrs
    if kind == 'TRS':
        return pytrs.TRSList([pytrs.TRS(s) for s in strings])
    return pytrs.TractList([pytrs.Tract('', trs=s) for s in strings])


def _run_sort(kind, strings, key, reverse):
    lst = _build_list(kind, strings)
    before_l = list(lst)
    try:
        lst.custom_sort(key, reverse)
    except ValueError as e:
        return before_l, None, e
    return before_l, list(lst), None


def replay_sort(model, kind, key):
    """replay a counter-model of a key-order obligation on the real custom_sort"""
    rows = (model.get('self') or {}).get('_elements', {}).get('elements', [])
    idx = [k for k in (model.get('i'), model.get('j')) if isinstance(k, int) and 0 <= k < len(rows)]
    picks = [rows[k] for k in idx] or rows[:4]
    strings = [_trs_string(r) for r in picks]
    out = {'confirmed': False, 'input': {'kind': kind, 'trs': strings, 'key': key}, 'tried': []}
    import itertools
    for perm in itertools.permutations(strings):
        for rev in (False, True):
            b, a, exc = _run_sort(kind, list(perm), key, rev)
            if exc is not None:
                out.update(confirmed=True, detail=f"custom_sort({key!r}) raised {exc!r}", observed=repr(exc))
                return out
            probs = order_violations(b, a, key, rev)
            if probs:
                out.update(confirmed=True, detail=probs[0], observed=[str(x) for x in a],
                           input={'kind': kind, 'trs': list(perm), 'key': key, 'reverse': rev})
                return out
    out['detail'] = 'real custom_sort ordered the model elements according to the spec'
    return out


PROBE = ['154n97w14', '154n97w01', '153n97w14', '2s3e14', '10s3e02', '2s10e14', '154n96w14', 'XXXzXXXzXX', '___z___z__',
         '154nXXXz14', '154n97wXX', 'XXXz97w14']


def replay_parse_key(model):
    import re
    k = model.get('k_', '')
    out = {'confirmed': False, 'input': {'key': k}}
    for kind in ('TRS', 'Tract'):
        b, a, exc = _run_sort(kind, PROBE, k, False)
        ok_grammar = re.fullmatch(GRAMMAR, normalize_key(k)) is not None and ',' not in k
        if exc is not None and ok_grammar:
            out.update(confirmed=True, detail=f"key in the grammar rejected: {exc!r}")
            return out
        if exc is None and not ok_grammar and ',' not in k:
            out.update(confirmed=True, detail="key outside the grammar accepted without ValueError")
            return out
        if exc is None and ok_grammar:
            probs = order_violations(b, a, k, False)
            if probs:
                out.update(confirmed=True, detail=probs[0])
                return out
    out['detail'] = 'real code agrees with the grammar and the order spec on the probe list'
    return out


def replay_multikey(model, kind):
    import re
    key = model.get('key', '')
    rev = bool(model.get('reverse'))
    b, a, exc = _run_sort(kind, PROBE, key, rev)
    pieces = normalize_key(key).split(',')
    in_grammar = all(re.fullmatch(GRAMMAR, p) for p in pieces)
    out = {'confirmed': False, 'input': {'key': key, 'reverse': rev, 'kind': kind}}
    if exc is not None and in_grammar:
        out.update(confirmed=True, detail=f"valid key rejected: {exc!r}")
    elif exc is None and not in_grammar:
        out.update(confirmed=True, detail="invalid key accepted")
    elif exc is None:
        probs = order_violations(b, a, key, rev)
        if probs:
            out.update(confirmed=True, detail=probs[0])
    if not out['confirmed']:
        out['detail'] = 'real code agrees with the spec on the probe list'
    return out


# ======================================================================================================================
# bounded stand-in (labelled bounded; never counted as proved)
# ======================================================================================================================
POOL = ['154n97w14', '154n97w01', '153n97w14', '2s3e14', '2s10e02', '154n96w14', 'XXXzXXXzXX', '___z97w__', '154nXXXz14', '154n97w00', '0n5w03']
KEY_COMPONENTS = ['i', 's', 't', 'r', 't.num', 't.ns', 't.sn', 'r.num', 'r.we', 'r.ew', 's.num', 'i.num']
BAD_KEYS = ['x', 'x.ns', 'q.rev', 't.ew', 'r.ns', 's.ns', 'i.we', 't.', '.ns', 't..ns', 'tt', 't.ns.revv', '', 't.num.ns',
            's.rev.rev', 'ts']


def _bounded_sort(tier, seed):
    import itertools
    import random
    rng = random.Random(seed)
    maxlen = 3 if tier == 'quick' else 4
    lists = [list(c) for n in range(1, maxlen + 1) for c in itertools.product(range(len(POOL)), repeat=n)]
    if tier == 'quick':
        lists = [l for n, l in enumerate(lists) if len(l) < 3 or n % 3 == 0]
    singles = [c + s for c in KEY_COMPONENTS for s in ('', '.rev', '.reverse')]
    multis = [f"{a},{b}" for a in ('t.ns', 'r.we.rev', 's', 'i.rev') for b in ('s.num', 't.sn.reverse', 'r.ew', 'i')]
    multis += ['i, s ,r ,t', ' T.NS , R.WE.REVERSE , S.num', 's,r,t', 't.num.rev,s.rev,r.ew']
    evaluations = 0
    distinct = set()
    violations = []
    samples = []
    for kind in ('TRS', 'Tract'):
        for n, idxs in enumerate(lists):
            strings = [POOL[k] for k in idxs]
            keys = singles if len(idxs) <= 2 or tier == 'thorough' else [singles[(n + k) % len(singles)] for k in range(4)]
            keys = keys + [multis[(n + k) % len(multis)] for k in range(3)]
            for key in keys:
                for rev in (False, True):
                    b, a, exc = _run_sort(kind, strings, key, rev)
                    evaluations += 1
                    if len(set(strings)) > 1:
                        distinct.add((kind, tuple(idxs), key, rev))
                    probs = [f"valid key rejected: {exc!r}"] if exc is not None else order_violations(b, a, key, rev)
                    if probs and len(violations) < 10:
                        violations.append({'input': {'kind': kind, 'trs': strings, 'key': key, 'reverse': rev},
                                           'observed': probs[0], 'expected': 'order per spec before/tie',
                                           'replay_spec': ['props.c17:replay_bounded', {}]})
                    if len(samples) < 3 and len(idxs) == 3:
                        samples.append({'kind': kind, 'trs': strings, 'key': key, 'reverse': rev,
                                        'result': [str(getattr(x, 'trs', x)) for x in a] if a else None})
    for key in BAD_KEYS:
        for good in ('', 't.ns,', 's,'):
            k = good + key
            if k == '':
                continue
            b, a, exc = _run_sort('TRS', POOL[:3], k, False)
            evaluations += 1
            distinct.add(('bad', k))
            if exc is None and len(violations) < 10:
                violations.append({'input': {'kind': 'TRS', 'trs': POOL[:3], 'key': k, 'reverse': False},
                                   'observed': 'accepted', 'expected': 'ValueError',
                                   'replay_spec': ['props.c17:replay_bounded', {}]})
    return {'evaluations': evaluations, 'distinct_nontrivial': len(distinct), 'violations': violations,
            'samples': samples, 'exhaustive': False,
            'bound': f"lists of <= {maxlen} elements over a pool of {len(POOL)} TRS values x {len(singles)} single keys + multi-key samples",
            'rule': "real custom_sort on enumerated lists; result checked with the native oracle (permutation, per-key order, "
                    "stability); non-trivial = list with at least two different TRS values"}


def replay_bounded(inp):
    import re
    b, a, exc = _run_sort(inp['kind'], inp['trs'], inp['key'], inp['reverse'])
    pieces = normalize_key(inp['key']).split(',')
    in_grammar = all(re.fullmatch(GRAMMAR, p) for p in pieces)
    if exc is not None:
        return {'confirmed': in_grammar, 'detail': f"raised {exc!r}", 'input': inp}
    if not in_grammar:
        return {'confirmed': True, 'detail': 'invalid key accepted', 'input': inp}
    probs = order_violations(b, a, inp['key'], inp['reverse'])
    return {'confirmed': bool(probs), 'detail': probs[0] if probs else 'order agrees with spec', 'input': inp}


def bounded(tier, seed):
    return [{'name': 'C17-bounded-sort-oracle', 'run': lambda: _bounded_sort(tier, seed)}]
